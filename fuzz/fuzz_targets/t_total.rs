#![no_main]
// C05, byte-level: any UTF-8 string through every public operation (in process)
use libfuzzer_sys::fuzz_target;
fuzz_target!(|data: &[u8]| {
    waxverif::fuzzglue::run_total(data);
});
