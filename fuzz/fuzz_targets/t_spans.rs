#![no_main]
// C17, byte-level: any UTF-8 string → Glob::new → every reported span must slice the expression
use libfuzzer_sys::fuzz_target;
fuzz_target!(|data: &[u8]| {
    waxverif::fuzzglue::run_spans(data);
});
