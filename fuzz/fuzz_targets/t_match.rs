#![no_main]
// C01, structure-aware: bytes → generator tape → (glob AST, path pool) → reference matcher oracle
use libfuzzer_sys::fuzz_target;
fuzz_target!(|data: &[u8]| {
    waxverif::fuzzglue::run_tape(&waxverif::props::c01::C01, data);
});
