#![no_main]
// C06, structure-aware: bytes → generator tape → rule-agnostic AST → reference rule checker oracle
use libfuzzer_sys::fuzz_target;
fuzz_target!(|data: &[u8]| {
    waxverif::fuzzglue::run_tape(&waxverif::props::c06::C06, data);
});
