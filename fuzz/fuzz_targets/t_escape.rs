#![no_main]
// C18, byte-level: any UTF-8 string brought into the stated domain → escape round-trip
use libfuzzer_sys::fuzz_target;
fuzz_target!(|data: &[u8]| {
    waxverif::fuzzglue::run_escape(data);
});
