//! Engine: drives a property with proptest (byte tape → decoder → check), shards over threads,
//! shrinks (proptest on the tape, then structurally on the decoded case), writes replay files and
//! the evidence report.

use crate::gen::Tape;
use proptest::collection::vec as pvec;
use proptest::prelude::*;
use proptest::test_runner::{Config, RngSeed, TestCaseError, TestError, TestRunner};
use serde::de::DeserializeOwned;
use serde::Serialize;
use serde_json::{json, Value};
use std::cell::RefCell;
use std::collections::hash_map::DefaultHasher;
use std::collections::{BTreeMap, HashSet};
use std::hash::{Hash, Hasher};
use std::path::{Path, PathBuf};
use std::time::Instant;

#[derive(Clone, Copy, Debug, PartialEq, Eq)]
pub enum Tier {
    Quick,
    Thorough,
}

impl Tier {
    pub fn name(self) -> &'static str {
        match self {
            Tier::Quick => "quick",
            Tier::Thorough => "thorough",
        }
    }
}

#[derive(Default)]
pub struct Stats {
    pub evaluations: u64,
    pub cases: u64,
    pub nontrivial: HashSet<u64>,
    pub counters: BTreeMap<String, u64>,
    pub samples: Vec<Value>,
    pub sample_pool: Vec<Value>,
    /// finding id → (count, first example)
    pub known: BTreeMap<String, (u64, String)>,
    pub unspecified: u64,
    pub panicked: u64,
    pub frozen: bool,
}

pub fn hash_of<T: Hash + ?Sized>(x: &T) -> u64 {
    let mut h = DefaultHasher::new();
    x.hash(&mut h);
    h.finish()
}

impl Stats {
    pub fn count(&mut self, key: &str) {
        self.add(key, 1);
    }
    pub fn add(&mut self, key: &str, n: u64) {
        if self.frozen {
            return;
        }
        *self.counters.entry(key.to_string()).or_insert(0) += n;
    }
    pub fn eval(&mut self, n: u64) {
        if !self.frozen {
            self.evaluations += n;
        }
    }
    /// register a distinct non-trivial case; `key` identifies it, `sample` is shown in evidence
    pub fn nontrivial<K: Hash + ?Sized>(&mut self, key: &K, sample: impl FnOnce() -> Value) {
        if self.frozen {
            return;
        }
        // samples are for reading: very long strings (64 KiB paths) are cut
        fn cut(v: &mut Value) {
            match v {
                Value::String(s) if s.len() > 300 => {
                    let n = s.len();
                    let mut k = 120;
                    while !s.is_char_boundary(k) {
                        k -= 1;
                    }
                    s.truncate(k);
                    s.push_str(&format!("… ({} bytes in all)", n));
                },
                Value::Array(a) => a.iter_mut().for_each(cut),
                Value::Object(o) => o.values_mut().for_each(cut),
                _ => {},
            }
        }
        let sample = || {
            let mut v = sample();
            cut(&mut v);
            v
        };
        let h = hash_of(key);
        if self.nontrivial.insert(h) {
            if self.samples.len() < 5 {
                self.samples.push(sample());
            }
            else if self.sample_pool.len() < 5 && h % 97 == 0 {
                self.sample_pool.push(sample());
            }
        }
    }
    pub fn known(&mut self, id: &str, example: impl FnOnce() -> String) {
        if self.frozen {
            return;
        }
        let e = self.known.entry(id.to_string()).or_insert_with(|| (0, String::new()));
        e.0 += 1;
        if e.1.is_empty() {
            e.1 = example();
        }
    }
    pub fn merge(&mut self, o: Stats) {
        self.evaluations += o.evaluations;
        self.cases += o.cases;
        self.unspecified += o.unspecified;
        self.panicked += o.panicked;
        self.nontrivial.extend(o.nontrivial);
        for (k, v) in o.counters {
            *self.counters.entry(k).or_insert(0) += v;
        }
        for s in o.samples {
            if self.samples.len() < 5 {
                self.samples.push(s);
            }
            else if self.sample_pool.len() < 5 {
                self.sample_pool.push(s);
            }
        }
        for s in o.sample_pool {
            if self.sample_pool.len() < 5 {
                self.sample_pool.push(s);
            }
        }
        for (k, (n, ex)) in o.known {
            let e = self.known.entry(k).or_insert_with(|| (0, String::new()));
            e.0 += n;
            if e.1.is_empty() {
                e.1 = ex;
            }
        }
    }
}

pub struct Failure {
    pub message: String,
}

pub type CheckResult = Result<(), String>;

/// One property.  `Case` is plain data: it is what replay files contain.
pub trait Property: Sync {
    type Case: Serialize + DeserializeOwned + Clone + std::fmt::Debug + Send;
    fn id(&self) -> &'static str;
    fn level(&self) -> &'static str {
        "exploration"
    }
    fn rule(&self) -> String;
    fn assumptions(&self) -> Vec<String>;
    /// (cases per shard, shards)
    fn budget(&self, tier: Tier) -> (u32, u32);
    fn tape_len(&self) -> usize {
        384
    }
    fn decode(&self, t: &mut Tape) -> Self::Case;
    fn check(&self, case: &Self::Case, st: &mut Stats) -> CheckResult;
    fn shrink(&self, _case: &Self::Case) -> Vec<Self::Case> {
        Vec::new()
    }
    /// counters that must be non-zero for the generator to be considered healthy
    fn required_counters(&self) -> Vec<&'static str> {
        Vec::new()
    }
    /// extra deterministic work (bounded-exhaustive enumerations, sweeps); may report failures
    fn extra(&self, _tier: Tier, _st: &mut Stats) -> Result<(), (Self::Case, String)> {
        Ok(())
    }
    /// fixed directed cases executed before the random search
    fn directed(&self) -> Vec<Self::Case> {
        Vec::new()
    }
}

pub struct RunOutcome {
    pub stats: Stats,
    pub violations: Vec<(Value, String)>,
    pub wall_s: f64,
}

pub fn verif_root() -> PathBuf {
    std::env::var("VERIF_ROOT").map(PathBuf::from).unwrap_or_else(|_| PathBuf::from("/verif"))
}

fn minimise<P: Property>(p: &P, case: P::Case, msg: String) -> (P::Case, String) {
    let mut best = case;
    let mut best_msg = msg;
    let mut scratch = Stats::default();
    scratch.frozen = true;
    let mut steps = 0;
    'outer: loop {
        if steps > 400 {
            break;
        }
        for cand in p.shrink(&best) {
            steps += 1;
            if steps > 4000 {
                break 'outer;
            }
            let r = std::panic::catch_unwind(std::panic::AssertUnwindSafe(|| {
                safe_check(p, &cand, &mut scratch)
            }));
            if let Ok(Err(m)) = r {
                best = cand;
                best_msg = m;
                continue 'outer;
            }
        }
        break;
    }
    (best, best_msg)
}

fn run_shard<P: Property>(
    p: &P,
    seed: u64,
    cases: u32,
) -> (Stats, Option<(P::Case, String)>) {
    let mut cfg = Config::default();
    cfg.cases = cases;
    cfg.failure_persistence = None;
    cfg.rng_seed = RngSeed::Fixed(seed);
    cfg.max_shrink_iters = 3000;
    cfg.max_shrink_time = 0;
    cfg.verbose = 0;
    cfg.source_file = None;
    let mut runner = TestRunner::new(cfg);
    let stats = RefCell::new(Stats::default());
    let strategy = pvec(any::<u8>(), 0..=p.tape_len());
    let result = runner.run(&strategy, |tape| {
        let mut t = Tape::new(&tape);
        let case = p.decode(&mut t);
        let mut st = stats.borrow_mut();
        if !st.frozen {
            st.cases += 1;
        }
        match safe_check(p, &case, &mut st) {
            Ok(()) => Ok(()),
            Err(m) => {
                st.frozen = true; // stop counting: the closure re-runs during shrinking
                Err(TestCaseError::fail(m))
            },
        }
    });
    let stats = stats.into_inner();
    match result {
        Ok(()) => (stats, None),
        Err(TestError::Fail(reason, tape)) => {
            let mut t = Tape::new(&tape);
            let case = p.decode(&mut t);
            let mut scratch = Stats::default();
            scratch.frozen = true;
            let msg = match safe_check(p, &case, &mut scratch) {
                Err(m) => m,
                Ok(()) => format!("(not reproducible on re-run) {}", reason),
            };
            let (case, msg) = minimise(p, case, msg);
            (stats, Some((case, msg)))
        },
        Err(TestError::Abort(reason)) => {
            eprintln!("proptest aborted: {}", reason);
            (stats, None)
        },
    }
}

pub fn replay_dir(id: &str) -> PathBuf {
    verif_root().join("replays").join(id)
}

pub fn run_property<P: Property>(p: &P, tier: Tier, seed: u64) -> RunOutcome {
    let start = Instant::now();
    let mut stats = Stats::default();
    let mut violations: Vec<(Value, String)> = Vec::new();

    // 1. committed regression inputs
    if let Ok(rd) = std::fs::read_dir(replay_dir(p.id())) {
        let mut files: Vec<PathBuf> = rd.flatten().map(|e| e.path()).collect();
        files.sort();
        for f in files {
            if f.extension().map_or(true, |x| x != "json") {
                continue;
            }
            match load_case::<P>(&f) {
                Ok(case) => {
                    stats.count("replayed_regression_inputs");
                    if let Err(m) = safe_check(p, &case, &mut stats) {
                        violations.push((
                            serde_json::to_value(&case).unwrap(),
                            format!("regression input {}: {}", f.display(), m),
                        ));
                    }
                },
                Err(e) => eprintln!("cannot load replay file {}: {}", f.display(), e),
            }
        }
    }
    // 2. directed cases
    for case in p.directed() {
        stats.count("directed_cases");
        stats.cases += 1;
        if let Err(m) = safe_check(p, &case, &mut stats) {
            let (case, m) = minimise(p, case, m);
            violations.push((serde_json::to_value(&case).unwrap(), m));
        }
    }
    // 3. extra deterministic work
    if violations.is_empty() {
        if let Err((case, m)) = p.extra(tier, &mut stats) {
            violations.push((serde_json::to_value(&case).unwrap(), m));
        }
    }
    // 4. generated search
    if violations.is_empty() {
        let (cases, shards) = p.budget(tier);
        let results: Vec<(Stats, Option<(P::Case, String)>)> = std::thread::scope(|s| {
            let hs: Vec<_> = (0..shards)
                .map(|i| {
                    let sd = seed.wrapping_mul(1000).wrapping_add(i as u64);
                    std::thread::Builder::new()
                        .stack_size(64 << 20)
                        .spawn_scoped(s, move || run_shard(p, sd, cases))
                        .unwrap()
                })
                .collect();
            hs.into_iter().map(|h| h.join().expect("shard panicked")).collect()
        });
        for (st, fail) in results {
            stats.merge(st);
            if let Some((case, m)) = fail {
                violations.push((serde_json::to_value(&case).unwrap(), m));
            }
        }
    }
    RunOutcome { stats, violations, wall_s: start.elapsed().as_secs_f64() }
}

pub fn load_case<P: Property>(f: &Path) -> Result<P::Case, String> {
    let text = std::fs::read_to_string(f).map_err(|e| e.to_string())?;
    let v: Value = serde_json::from_str(&text).map_err(|e| e.to_string())?;
    let c = v.get("case").cloned().unwrap_or(v);
    serde_json::from_value(c).map_err(|e| e.to_string())
}

pub fn replay_file<P: Property>(p: &P, f: &Path) -> i32 {
    match load_case::<P>(f) {
        Ok(case) => {
            let mut st = Stats::default();
            match safe_check(p, &case, &mut st) {
                Ok(()) => {
                    for (k, (_, ex)) in &st.known {
                        println!("KNOWN-FINDING: property={} {} [{}]", p.id(), k, ex.replace('\n', "\\n"));
                    }
                    println!("replay {}: property {} holds on this input", f.display(), p.id());
                    0
                },
                Err(m) => {
                    println!("replay {}: {}", f.display(), m);
                    println!("VIOLATION property={} replay={}", p.id(), f.display());
                    1
                },
            }
        },
        Err(e) => {
            eprintln!("cannot load {}: {}", f.display(), e);
            2
        },
    }
}

/// Serialisable summary a (possibly unprivileged) child process hands to its parent.
#[derive(Serialize, serde::Deserialize)]
pub struct Report {
    pub evidence: Value,
    pub violations: Vec<(Value, String)>,
    pub known_lines: Vec<String>,
    pub health_errors: Vec<String>,
}

pub fn build_report<P: Property>(p: &P, tier: Tier, seed: u64, out: RunOutcome) -> Report {
    let RunOutcome { stats, violations, wall_s } = out;
    let mut samples = stats.samples.clone();
    samples.extend(stats.sample_pool.iter().cloned());
    if samples.is_empty() {
        samples.push(json!("(no non-trivial case in this run)"));
    }
    let mut health = Vec::new();
    for k in p.required_counters() {
        if stats.counters.get(k).copied().unwrap_or(0) == 0 {
            health.push(format!("generator health: class counter `{}` is zero", k));
        }
    }
    let known: BTreeMap<String, Value> = stats
        .known
        .iter()
        .map(|(k, (n, ex))| (k.clone(), json!({"count": n, "example": ex})))
        .collect();
    let evidence = json!({
        "property_id": p.id(),
        "tier": tier.name(),
        "seed": seed,
        "level": p.level(),
        "coverage": {
            "evaluations": stats.evaluations.max(stats.cases),
            "generated_cases": stats.cases,
            "distinct_nontrivial": stats.nontrivial.len(),
            "rule": p.rule(),
            "samples": samples,
            "class_counters": stats.counters,
            "excluded_known": known,
            "unspecified_by_oracle": stats.unspecified,
            "wax_panics_not_judged_here": stats.panicked,
            "exhaustive": false,
        },
        "assumptions": p.assumptions(),
        "wall_s": wall_s,
        "violations": violations.len(),
    });
    let known_lines = stats
        .known
        .iter()
        .map(|(k, (n, ex))| {
            format!(
                "KNOWN-FINDING: property={} {} — {} (seen {}x this run, e.g. {})",
                p.id(),
                k,
                crate::findings::describe(k),
                n,
                ex.replace('\n', "\\n").replace('\r', "\\r")
            )
        })
        .collect();
    Report { evidence, violations, known_lines, health_errors: health }
}

/// Write evidence + violation files, print the interface lines, return the exit code.
pub fn finish(id: &str, report: Report) -> i32 {
    let root = verif_root();
    let evdir = root.join("evidence");
    let _ = std::fs::create_dir_all(&evdir);
    let evpath = evdir.join(format!("{}.json", id));
    if let Err(e) =
        std::fs::write(&evpath, serde_json::to_string_pretty(&report.evidence).unwrap() + "\n")
    {
        eprintln!("cannot write evidence {}: {}", evpath.display(), e);
        return 2;
    }
    for l in &report.known_lines {
        println!("{}", l);
    }
    if !report.violations.is_empty() {
        let vdir = root.join("violations").join(id);
        let _ = std::fs::create_dir_all(&vdir);
        for (case, msg) in &report.violations {
            let h = hash_of(&case.to_string());
            let f = vdir.join(format!("{:016x}.json", h));
            let body = json!({"property": id, "message": msg, "case": case});
            let _ = std::fs::write(&f, serde_json::to_string_pretty(&body).unwrap() + "\n");
            println!("violation detail: {}", msg);
            println!("VIOLATION property={} replay={}", id, f.display());
        }
        return 1;
    }
    if !report.health_errors.is_empty() {
        for h in &report.health_errors {
            eprintln!("{}", h);
        }
        return 2;
    }
    let cov = &report.evidence["coverage"];
    println!(
        "OK property={} evaluations={} distinct_nontrivial={} wall_s={:.1}",
        id, cov["evaluations"], cov["distinct_nontrivial"], report.evidence["wall_s"].as_f64().unwrap_or(0.0)
    );
    0
}

// ------------------------------------------------------------------------------------------------
// panic capture

thread_local! {
    static LAST_PANIC: RefCell<Option<String>> = RefCell::new(None);
    static IN_GUARD: std::cell::Cell<u32> = std::cell::Cell::new(0);
}

pub fn install_quiet_panic_hook() {
    std::panic::set_hook(Box::new(|info| {
        let loc = info.location().map(|l| format!("{}:{}", l.file(), l.line())).unwrap_or_default();
        let msg = if let Some(s) = info.payload().downcast_ref::<&str>() {
            s.to_string()
        }
        else if let Some(s) = info.payload().downcast_ref::<String>() {
            s.clone()
        }
        else {
            "(non-string payload)".to_string()
        };
        // panics inside `guard` are wax's (recorded silently); anything else is a harness bug
        if IN_GUARD.with(|g| g.get()) == 0 {
            eprintln!("harness panic: {} @ {}", msg, loc);
        }
        LAST_PANIC.with(|p| *p.borrow_mut() = Some(format!("{} @ {}", msg, loc)));
    }));
}

/// `Property::check` with a safety net: a panic that escapes the check's own guards and was raised
/// in the library under test (or a dependency) is counted and the case is not judged — totality is
/// C05's property —, instead of taking the whole run down.  A panic raised in the harness's own
/// source (`src/...`) is a harness bug and is re-raised.
pub fn safe_check<P: Property>(p: &P, case: &P::Case, st: &mut Stats) -> CheckResult {
    match guard(|| p.check(case, st)) {
        Ok(r) => r,
        Err(msg) => {
            let loc = msg.rsplit(" @ ").next().unwrap_or("");
            if loc.starts_with("src/") {
                eprintln!("harness panic: {}", msg);
                panic!("{}", msg);
            }
            st.panicked += 1;
            st.count("wax_panic_outside_the_checks_guards");
            Ok(())
        },
    }
}

/// Run `f`, turning a panic into `Err(message @ location)`.
pub fn guard<T>(f: impl FnOnce() -> T) -> Result<T, String> {
    IN_GUARD.with(|g| g.set(g.get() + 1));
    let r = std::panic::catch_unwind(std::panic::AssertUnwindSafe(f));
    IN_GUARD.with(|g| g.set(g.get().saturating_sub(1)));
    match r {
        Ok(v) => Ok(v),
        Err(_) => Err(LAST_PANIC.with(|p| p.borrow_mut().take()).unwrap_or_else(|| "panic".into())),
    }
}

// ------------------------------------------------------------------------------------------------
// secondary engine: libFuzzer campaign (thorough tier)

pub struct FuzzOutcome {
    pub runs: u64,
    pub cov: u64,
    pub corpus: u64,
    /// replay files written by the in-target oracle (fuzzglue::report)
    pub replays: Vec<PathBuf>,
    /// crash artifacts without an oracle report (abort, stack overflow, …)
    pub raw_crashes: Vec<PathBuf>,
    pub infra_error: Option<String>,
}

/// Run `cargo +nightly fuzz run <target>` for a fixed number of runs from a fresh scratch corpus
/// (seeded with the committed corpus of the target, if any).
pub fn fuzz_stage(target: &str, runs: u64, seed: u64, max_len: u32) -> FuzzOutcome {
    let mut out = FuzzOutcome { runs: 0, cov: 0, corpus: 0, replays: vec![], raw_crashes: vec![], infra_error: None };
    let root = verif_root();
    let scratch = std::env::temp_dir().join(format!("waxverif-fuzz-{}-{}", std::process::id(), target));
    let _ = std::fs::remove_dir_all(&scratch);
    let corpus = scratch.join("corpus");
    let artifacts = scratch.join("artifacts");
    if std::fs::create_dir_all(&corpus).is_err() || std::fs::create_dir_all(&artifacts).is_err() {
        out.infra_error = Some("cannot create fuzz scratch directories".into());
        return out;
    }
    // committed seed corpus
    let committed = PathBuf::from("/verif/fuzz/corpus").join(target);
    if let Ok(rd) = std::fs::read_dir(&committed) {
        for e in rd.flatten() {
            let _ = std::fs::copy(e.path(), corpus.join(e.file_name()));
        }
    }
    let harness_dir = PathBuf::from("/verif/harness");
    let res = std::process::Command::new("cargo")
        .current_dir(&harness_dir)
        .args(["+nightly", "fuzz", "run", "--fuzz-dir", "../fuzz", "-s", "none", target])
        .arg(&corpus)
        .arg("--")
        .arg(format!("-runs={}", runs))
        .arg(format!("-seed={}", seed.max(1)))
        .arg(format!("-max_len={}", max_len))
        .arg("-len_control=0")
        .arg("-print_final_stats=1")
        .arg(format!("-artifact_prefix={}/", artifacts.display()))
        .env("RUSTFLAGS", "--cfg olson_sean_k_wax_verif")
        .env("CARGO_NET_OFFLINE", "true")
        .env("VERIF_ROOT", &root)
        .env_remove("RUST_BACKTRACE")
        .output();
    let res = match res {
        Ok(r) => r,
        Err(e) => {
            out.infra_error = Some(format!("cannot start cargo fuzz: {}", e));
            return out;
        },
    };
    let stderr = String::from_utf8_lossy(&res.stderr).to_string();
    for line in stderr.lines() {
        if let Some(rest) = line.strip_prefix("Done ") {
            out.runs = rest.split_whitespace().next().and_then(|x| x.parse().ok()).unwrap_or(0);
        }
        if line.starts_with('#') && line.contains("cov: ") {
            let grab = |key: &str| -> u64 {
                line.split(key).nth(1).and_then(|x| x.split_whitespace().next()).and_then(|x| x.split('/').next()).and_then(|x| x.parse().ok()).unwrap_or(0)
            };
            out.cov = grab("cov: ");
            out.corpus = grab("corp: ");
        }
        if let Some(rest) = line.strip_prefix("VIOLATION property=") {
            if let Some(p) = rest.split("replay=").nth(1) {
                out.replays.push(PathBuf::from(p.trim()));
            }
        }
    }
    if !res.status.success() {
        if out.replays.is_empty() {
            if let Ok(rd) = std::fs::read_dir(&artifacts) {
                for e in rd.flatten() {
                    // keep the raw crash input next to the violations
                    let keep = root.join("violations").join("fuzz-raw");
                    let _ = std::fs::create_dir_all(&keep);
                    let dst = keep.join(format!("{}-{}", target, e.file_name().to_string_lossy()));
                    let _ = std::fs::copy(e.path(), &dst);
                    out.raw_crashes.push(dst);
                }
            }
            if out.raw_crashes.is_empty() {
                let tail: Vec<&str> = stderr.lines().rev().take(12).collect();
                out.infra_error = Some(format!("cargo fuzz failed without a crash artifact: {}", tail.into_iter().rev().collect::<Vec<_>>().join(" | ")));
            }
        }
    }
    let _ = std::fs::remove_dir_all(&scratch);
    out
}
