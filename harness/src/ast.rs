//! Own AST of wax's glob dialect + renderer (text and byte spans).  Shares no code with wax.
//!
//! `Expr` = a concatenation.  `Lit.ci` is the *effective* case-insensitivity of the literal; the
//! renderer emits flag groups so that wax's textual threading of flag state gives every literal
//! exactly that value.  `Tok::Flag` is textual noise (a flag group that is there but need not be).

use serde::{Deserialize, Serialize};

pub const META: &[char] = &['?', '*', '$', ':', '<', '>', '(', ')', '[', ']', '{', '}', ','];

#[derive(Clone, Debug, PartialEq, Eq, Hash, Serialize, Deserialize)]
pub enum Item {
    Ch(char),
    Range(char, char),
}

#[derive(Clone, Debug, PartialEq, Eq, Hash, Serialize, Deserialize)]
pub enum Tok {
    Lit { text: String, ci: bool },
    Sep,
    One,
    Zom { lazy: bool },
    /// `**` with absorbed leading / trailing separator.
    Tree { lead: bool, trail: bool },
    Class { neg: bool, items: Vec<Item> },
    Alt(Vec<Expr>),
    /// spell: 0 = canonical `<b:lo,hi>`/`<b:lo,>`, 1 = shortest available spelling
    /// (`<b>` for 0.., `<b:>` for 1.., `<b:n>` for n..n)
    Rep { body: Expr, lo: usize, hi: Option<usize>, spell: u8 },
    /// A redundant flag group, e.g. `[true,false]` = `(?i-i)`.  Changes the textual flag state;
    /// the renderer re-establishes the state a following literal needs.
    Flag(Vec<bool>),
}

pub type Expr = Vec<Tok>;

impl Tok {
    pub fn lit(s: &str) -> Tok {
        Tok::Lit { text: s.to_string(), ci: false }
    }
    pub fn is_branch(&self) -> bool {
        matches!(self, Tok::Alt(_) | Tok::Rep { .. })
    }
    pub fn is_boundary(&self) -> bool {
        matches!(self, Tok::Sep | Tok::Tree { .. })
    }
    pub fn is_zom(&self) -> bool {
        matches!(self, Tok::Zom { .. })
    }
    /// Capturing at the top level of a glob: every wildcard, class, alternation, repetition.
    pub fn is_capturing(&self) -> bool {
        !matches!(self, Tok::Lit { .. } | Tok::Sep | Tok::Flag(_))
    }
    pub fn is_flag(&self) -> bool {
        matches!(self, Tok::Flag(_))
    }
}

/// Remove `Flag` noise tokens everywhere (they carry no meaning).
pub fn strip_flags(e: &Expr) -> Expr {
    e.iter()
        .filter(|t| !t.is_flag())
        .map(|t| match t {
            Tok::Alt(bs) => Tok::Alt(bs.iter().map(strip_flags).collect()),
            Tok::Rep { body, lo, hi, spell } => {
                Tok::Rep { body: strip_flags(body), lo: *lo, hi: *hi, spell: *spell }
            },
            t => t.clone(),
        })
        .collect()
}

/// Merge adjacent literals with equal `ci` (the parser would read them as one literal anyway).
pub fn merge_lits(e: &Expr) -> Expr {
    let mut out: Expr = Vec::new();
    for t in e {
        let t = match t {
            Tok::Alt(bs) => Tok::Alt(bs.iter().map(merge_lits).collect()),
            Tok::Rep { body, lo, hi, spell } => {
                Tok::Rep { body: merge_lits(body), lo: *lo, hi: *hi, spell: *spell }
            },
            t => t.clone(),
        };
        if let (Some(Tok::Lit { text: a, ci: ca }), Tok::Lit { text: b, ci: cb }) =
            (out.last_mut(), &t)
        {
            if *ca == *cb {
                a.push_str(b);
                continue;
            }
        }
        out.push(t);
    }
    out
}

/// Enforce the syntactic invariants that make `render` produce text wax *parses* (it may still
/// violate rules).  `top`: the top-level concatenation may be empty, branches may not.
pub fn normalize(e: &Expr, top: bool) -> Expr {
    let mut out: Expr = Vec::new();
    for t in e {
        let t = match t {
            Tok::Lit { text, ci } => {
                let text: String = text.chars().filter(|c| *c != '/' && *c != '\\').collect();
                if text.is_empty() {
                    continue;
                }
                Tok::Lit { text, ci: *ci }
            },
            Tok::Class { neg, items } => {
                let mut items: Vec<Item> = items
                    .iter()
                    .filter(|i| match i {
                        Item::Ch(c) => *c != '\\',
                        // (a range written backwards, `[b-a]`, parses and builds: kept)
                        Item::Range(a, b) => *a != '\\' && *b != '\\',
                    })
                    .cloned()
                    .collect();
                if items.is_empty() {
                    items.push(Item::Ch('a'));
                }
                // `!` directly after `[` would be read as negation
                if let Some(Item::Ch('!')) | Some(Item::Range('!', _)) = items.first() {
                    if items.len() > 1 {
                        items.swap(0, 1);
                    }
                    if matches!(items.first(), Some(Item::Ch('!')) | Some(Item::Range('!', _))) {
                        items.insert(0, Item::Ch('a'));
                    }
                }
                Tok::Class { neg: *neg, items }
            },
            Tok::Alt(bs) => {
                let mut bs: Vec<Expr> = bs.iter().map(|b| normalize(b, false)).collect();
                if bs.is_empty() {
                    bs.push(vec![Tok::lit("a")]);
                }
                Tok::Alt(bs)
            },
            Tok::Rep { body, lo, hi, spell } => {
                Tok::Rep { body: normalize(body, false), lo: *lo, hi: *hi, spell: *spell }
            },
            Tok::Flag(v) => {
                if v.is_empty() {
                    continue;
                }
                Tok::Flag(v.clone())
            },
            t => t.clone(),
        };
        // no two *eager* zero-or-more wildcards directly adjacent (`**` lexes as a tree wildcard);
        // `*$`, `$*`, `$$` stay as written (a rule violation the checker must reject)
        if let Tok::Zom { lazy: false } = t {
            let prev = out.iter().rev().find(|p| !p.is_flag());
            if matches!(prev, Some(Tok::Zom { lazy: false })) {
                continue;
            }
        }
        out.push(t);
    }
    // trailing flags are a syntax error
    while out.last().map_or(false, |t| t.is_flag()) {
        out.pop();
    }
    let n = out.len();
    for i in 0..n {
        // (flag groups are not content: a tree wildcard behind leading flags still begins the
        // concatenation)
        let before = out[..i].iter().any(|t| !t.is_flag());
        let after = out[i + 1..].iter().any(|t| !t.is_flag());
        if let Tok::Tree { lead, trail } = &mut out[i] {
            if before {
                *lead = true;
            }
            if after {
                *trail = true;
            }
        }
    }
    // `*` directly followed by a tree wildcard without leading separator cannot happen (index>0
    // forces lead).  A zom directly before `**`-text: `*/**` is fine.
    if out.is_empty() && !top {
        out.push(Tok::lit("a"));
    }
    out
}

pub fn escape_lit(text: &str, out: &mut String) {
    for c in text.chars() {
        if META.contains(&c) {
            out.push('\\');
        }
        out.push(c);
    }
}

fn render_class_char(c: char, out: &mut String) {
    if matches!(c, '[' | ']' | '-') {
        out.push('\\');
    }
    out.push(c);
}

#[derive(Clone, Debug, Serialize, Deserialize, PartialEq, Eq)]
pub struct TokSpan {
    /// byte offset where the flag groups in front of the token start
    pub start_flags: usize,
    /// byte offset of the token proper
    pub start: usize,
    pub end: usize,
    pub capturing: bool,
}

#[derive(Clone, Debug)]
pub struct Rendered {
    pub text: String,
    /// spans of the top-level tokens (Flag noise tokens excluded)
    pub top: Vec<TokSpan>,
}

pub fn render(e: &Expr) -> Rendered {
    let mut text = String::new();
    let mut state = false; // Unix default: case-sensitive
    let mut top = Vec::new();
    render_concat(e, &mut text, &mut state, Some(&mut top));
    Rendered { text, top }
}

pub fn render_text(e: &Expr) -> String {
    render(e).text
}

fn push_flag(ci: bool, out: &mut String) {
    out.push_str(if ci { "(?i)" } else { "(?-i)" });
}

fn render_concat(e: &Expr, out: &mut String, state: &mut bool, mut top: Option<&mut Vec<TokSpan>>) {
    let mut pending_flags_start: Option<usize> = None;
    for t in e {
        let start_flags = pending_flags_start.unwrap_or(out.len());
        match t {
            Tok::Flag(v) => {
                if pending_flags_start.is_none() {
                    pending_flags_start = Some(out.len());
                }
                out.push_str("(?");
                for b in v {
                    out.push_str(if *b { "i" } else { "-i" });
                    *state = *b;
                }
                out.push(')');
                continue;
            },
            Tok::Lit { text, ci } => {
                if *state != *ci {
                    push_flag(*ci, out);
                    *state = *ci;
                }
                let start = out.len();
                escape_lit(text, out);
                if let Some(top) = top.as_deref_mut() {
                    top.push(TokSpan { start_flags, start, end: out.len(), capturing: false });
                }
            },
            other => {
                let start = out.len();
                match other {
                    Tok::Sep => out.push('/'),
                    Tok::One => out.push('?'),
                    Tok::Zom { lazy } => out.push(if *lazy { '$' } else { '*' }),
                    Tok::Tree { lead, trail } => {
                        if *lead {
                            out.push('/');
                        }
                        out.push_str("**");
                        if *trail {
                            out.push('/');
                        }
                    },
                    Tok::Class { neg, items } => {
                        out.push('[');
                        if *neg {
                            out.push('!');
                        }
                        for i in items {
                            match i {
                                Item::Ch(c) => render_class_char(*c, out),
                                Item::Range(a, b) => {
                                    render_class_char(*a, out);
                                    out.push('-');
                                    render_class_char(*b, out);
                                },
                            }
                        }
                        out.push(']');
                    },
                    Tok::Alt(bs) => {
                        out.push('{');
                        for (i, b) in bs.iter().enumerate() {
                            if i > 0 {
                                out.push(',');
                            }
                            render_concat(b, out, state, None);
                        }
                        out.push('}');
                    },
                    Tok::Rep { body, lo, hi, spell } => {
                        out.push('<');
                        render_concat(body, out, state, None);
                        match (*lo, *hi, *spell) {
                            // numbers are parsed, not looked up: leading zeros mean nothing
                            (l, Some(h), 2) if l == h => out.push_str(&format!(":0{}", l)),
                            (l, Some(h), 2) => out.push_str(&format!(":0{},00{}", l, h)),
                            (l, None, 2) => out.push_str(&format!(":00{},", l)),
                            (0, None, 1) => {},
                            (1, None, 1) => out.push(':'),
                            (l, Some(h), 1) if l == h => out.push_str(&format!(":{}", l)),
                            (l, Some(h), _) => out.push_str(&format!(":{},{}", l, h)),
                            (l, None, _) => out.push_str(&format!(":{},", l)),
                        }
                        out.push('>');
                    },
                    Tok::Lit { .. } | Tok::Flag(_) => unreachable!(),
                }
                if let Some(top) = top.as_deref_mut() {
                    top.push(TokSpan {
                        start_flags,
                        start,
                        end: out.len(),
                        capturing: other.is_capturing(),
                    });
                }
            },
        }
        pending_flags_start = None;
    }
}

/// Walk every token (pre-order) with its nesting depth.
pub fn visit<'a>(e: &'a Expr, depth: usize, f: &mut dyn FnMut(&'a Tok, usize)) {
    for t in e {
        f(t, depth);
        match t {
            Tok::Alt(bs) => {
                for b in bs {
                    visit(b, depth + 1, f);
                }
            },
            Tok::Rep { body, .. } => visit(body, depth + 1, f),
            _ => {},
        }
    }
}

pub fn count_tokens(e: &Expr) -> usize {
    let mut n = 0;
    visit(e, 0, &mut |_, _| n += 1);
    n
}

pub fn max_depth(e: &Expr) -> usize {
    let mut n = 0;
    visit(e, 0, &mut |_, d| n = n.max(d));
    n
}

pub fn any_tok(e: &Expr, p: &dyn Fn(&Tok, usize) -> bool) -> bool {
    let mut r = false;
    visit(e, 0, &mut |t, d| r |= p(t, d));
    r
}

pub fn has_nonliteral(e: &Expr) -> bool {
    any_tok(e, &|t, _| !matches!(t, Tok::Lit { .. } | Tok::Sep | Tok::Flag(_)))
}

/// Structural shrink candidates (each strictly smaller / simpler), used by the engine's own
/// minimiser after proptest has shrunk the generator tape.
pub fn shrink_expr(e: &Expr) -> Vec<Expr> {
    let mut out = Vec::new();
    for i in 0..e.len() {
        // drop token i
        let mut c = e.clone();
        c.remove(i);
        out.push(c);
        match &e[i] {
            Tok::Alt(bs) => {
                // replace alternation by one branch inline
                for b in bs {
                    let mut c = e.clone();
                    c.splice(i..=i, b.iter().cloned());
                    out.push(c);
                }
                // drop one branch
                if bs.len() > 1 {
                    for j in 0..bs.len() {
                        let mut nb = bs.clone();
                        nb.remove(j);
                        let mut c = e.clone();
                        c[i] = Tok::Alt(nb);
                        out.push(c);
                    }
                }
                for (j, b) in bs.iter().enumerate() {
                    for sb in shrink_expr(b) {
                        if sb.is_empty() {
                            continue;
                        }
                        let mut nb = bs.clone();
                        nb[j] = sb;
                        let mut c = e.clone();
                        c[i] = Tok::Alt(nb);
                        out.push(c);
                    }
                }
            },
            Tok::Rep { body, lo, hi, spell } => {
                let mut c = e.clone();
                c.splice(i..=i, body.iter().cloned());
                out.push(c);
                if *lo > 0 {
                    let mut c = e.clone();
                    c[i] = Tok::Rep { body: body.clone(), lo: lo - 1, hi: *hi, spell: *spell };
                    out.push(c);
                }
                if let Some(h) = hi {
                    if *h > *lo && *h > 1 {
                        let mut c = e.clone();
                        c[i] =
                            Tok::Rep { body: body.clone(), lo: *lo, hi: Some(h - 1), spell: *spell };
                        out.push(c);
                    }
                }
                for sb in shrink_expr(body) {
                    if sb.is_empty() {
                        continue;
                    }
                    let mut c = e.clone();
                    c[i] = Tok::Rep { body: sb, lo: *lo, hi: *hi, spell: *spell };
                    out.push(c);
                }
            },
            Tok::Lit { text, ci } => {
                let n = text.chars().count();
                if n > 1 {
                    for k in 0..n {
                        let t: String =
                            text.chars().enumerate().filter(|(j, _)| *j != k).map(|x| x.1).collect();
                        let mut c = e.clone();
                        c[i] = Tok::Lit { text: t, ci: *ci };
                        out.push(c);
                    }
                }
                if *ci {
                    let mut c = e.clone();
                    c[i] = Tok::Lit { text: text.clone(), ci: false };
                    out.push(c);
                }
                if text != "a" && n == 1 {
                    let mut c = e.clone();
                    c[i] = Tok::Lit { text: "a".into(), ci: *ci };
                    out.push(c);
                }
            },
            Tok::Class { neg, items } => {
                if items.len() > 1 {
                    for k in 0..items.len() {
                        let mut it = items.clone();
                        it.remove(k);
                        let mut c = e.clone();
                        c[i] = Tok::Class { neg: *neg, items: it };
                        out.push(c);
                    }
                }
                if *neg {
                    let mut c = e.clone();
                    c[i] = Tok::Class { neg: false, items: items.clone() };
                    out.push(c);
                }
            },
            _ => {},
        }
    }
    out
}
