//! Reference rule checker (C06).  Implements exactly the rules of the property statement on the
//! harness AST — compositionally, so its verdict for a sub-expression depends only on that
//! sub-expression's own neighbours.  Shares no code with wax's token walkers.
//!
//! R1 boundary adjacency (whichever branches, bodies repeated at least once)
//! R2 zero-or-more adjacency (whichever branches)
//! R3 a branch that is solely a tree wildcard
//! R4 a repetition body that is solely a separator / zero-or-more wildcard
//! R5 an alternation branch / optional repetition that can root the expression
//! R6 repetition bounds ordered and non-degenerate
//! R7 invariant text of a sub-expression at or above the size limit (64 KiB); decided only where
//!    the statement decides it (see `size_verdict`)

use crate::ast::*;
use crate::gen::{ends_tok, starts_tok, K_B, K_Z};

#[derive(Clone, Copy, Debug, PartialEq, Eq, Hash, PartialOrd, Ord, serde::Serialize, serde::Deserialize)]
pub enum Rule {
    R1Boundary,
    R2Zom,
    R3SingularTree,
    R4SingularBody,
    R5Rooting,
    R6Bounds,
    R7Size,
}

#[derive(Clone, Debug, PartialEq, Eq)]
pub enum RuleVerdict {
    MustBuild,
    MustFail(Vec<Rule>),
    Unspecified(&'static str),
}

struct Acc {
    fails: Vec<Rule>,
    unspecified: Option<&'static str>,
}

fn toks(e: &Expr) -> Vec<&Tok> {
    e.iter().filter(|t| !t.is_flag()).collect()
}

/// can the token match the empty string (so that what follows it may be the first thing matched)?
fn nullable(t: &Tok) -> bool {
    match t {
        Tok::Zom { .. } => true,
        Tok::Rep { lo: 0, .. } => true,
        Tok::Rep { body, .. } => toks(body).iter().all(|t| nullable(t)),
        Tok::Alt(bs) => bs.iter().any(|b| toks(b).iter().all(|t| nullable(t))),
        Tok::Tree { lead, .. } => !*lead,
        _ => false,
    }
}

/// does some unfolding of the concatenation begin with a rooting leaf?
fn starts_rooting(e: &Expr) -> bool {
    match toks(e).first() {
        Some(Tok::Sep) => true,
        Some(Tok::Tree { lead, .. }) => *lead,
        Some(Tok::Alt(bs)) => bs.iter().any(starts_rooting),
        Some(Tok::Rep { body, .. }) => starts_rooting(body),
        _ => false,
    }
}

/// `before`: 0 = nothing precedes this concatenation in the whole expression, 1 = only tokens
/// that can match nothing precede it, 2 = something that always consumes text precedes it
fn check_concat(e: &Expr, before: u8, acc: &mut Acc) {
    let ts = toks(e);
    // adjacency inside this concatenation
    for w in ts.windows(2) {
        let (en, st) = (ends_tok(w[0]), starts_tok(w[1]));
        if en & st & K_B != 0 {
            acc.fails.push(Rule::R1Boundary);
        }
        if en & st & K_Z != 0 {
            acc.fails.push(Rule::R2Zom);
        }
    }
    let mut pre = before;
    for t in ts.iter() {
        match t {
            Tok::Alt(bs) => {
                for b in bs {
                    let bt = toks(b);
                    if bt.len() == 1 && matches!(bt[0], Tok::Tree { .. }) {
                        acc.fails.push(Rule::R3SingularTree);
                    }
                    if starts_rooting(b) {
                        match pre {
                            0 => acc.fails.push(Rule::R5Rooting),
                            1 => acc.unspecified = Some("branch can root the expression only if what precedes it matches nothing"),
                            _ => {},
                        }
                    }
                    check_concat(b, pre, acc);
                }
            },
            Tok::Rep { body, lo, hi, .. } => {
                if let Some(h) = hi {
                    if *h < *lo || (*lo == 0 && *h == 0) {
                        acc.fails.push(Rule::R6Bounds);
                    }
                }
                let bt = toks(body);
                if bt.len() == 1 {
                    match bt[0] {
                        Tok::Tree { .. } => acc.fails.push(Rule::R3SingularTree),
                        Tok::Sep | Tok::Zom { .. } => acc.fails.push(Rule::R4SingularBody),
                        _ => {},
                    }
                }
                if *lo == 0 && starts_rooting(body) {
                    match pre {
                        0 => acc.fails.push(Rule::R5Rooting),
                        1 => acc.unspecified = Some("optional repetition can root the expression only if what precedes it matches nothing"),
                        _ => {},
                    }
                }
                // self-adjacency when the body is repeated
                if let (Some(f), Some(l)) = (bt.first(), bt.last()) {
                    let (s, en) = (starts_tok(f), ends_tok(l));
                    if bt.len() > 1 || bt[0].is_branch() {
                        if en & s & K_B != 0 {
                            if *hi == Some(1) {
                                acc.unspecified = Some("boundary self-adjacency of a body that may only occur once");
                            }
                            else {
                                acc.fails.push(Rule::R1Boundary);
                            }
                        }
                        if en & s & K_Z != 0 && *hi != Some(1) {
                            acc.unspecified = Some("zero-or-more adjacency that only appears when a body is repeated");
                        }
                    }
                }
                // what precedes the body: the repetition's own predecessors (first iteration) —
                // later iterations are preceded by the body itself, which is covered by the
                // self-adjacency check; rooting only concerns the first iteration
                check_concat(body, pre, acc);
            },
            _ => {},
        }
        if pre != 2 {
            pre = if nullable(t) { pre.max(1) } else { 2 };
        }
    }
}

// ------------------------------------------------------------------------------------------------
// R7: invariant size

pub const SIZE_LIMIT: u64 = 0x10000;

/// size in bytes of the text a sub-expression matches, as far as the statement decides it
#[derive(Clone, Copy, Debug, PartialEq, Eq)]
enum Sz {
    /// every match has exactly this many bytes and the text is invariant
    Inv(u64),
    /// the text (and its size) varies
    Var,
    /// not decided here (classes, caseless literals with casing, alternations of several
    /// invariant branches)
    Unknown,
}

fn has_casing(s: &str) -> bool {
    s.chars().any(|c| c.to_lowercase().ne(c.to_uppercase()))
}

fn size_tok(t: &Tok) -> Sz {
    match t {
        Tok::Lit { text, ci } => {
            if *ci && has_casing(text) {
                Sz::Unknown
            }
            else {
                Sz::Inv(text.len() as u64)
            }
        },
        Tok::Sep => Sz::Inv(1),
        Tok::One | Tok::Zom { .. } | Tok::Tree { .. } => Sz::Var,
        Tok::Class { .. } => Sz::Unknown,
        Tok::Alt(bs) => {
            if bs.len() == 1 {
                size_concat(&bs[0])
            }
            else if bs.iter().any(|b| size_concat(b) == Sz::Var) {
                Sz::Var
            }
            else {
                Sz::Unknown
            }
        },
        Tok::Rep { body, lo, hi, .. } => match (size_concat(body), hi) {
            (Sz::Inv(n), Some(h)) if *h == *lo => Sz::Inv(n.saturating_mul(*lo as u64)),
            (Sz::Inv(_), _) => Sz::Var,
            (other, _) => other,
        },
        Tok::Flag(_) => Sz::Inv(0),
    }
}

fn size_concat(e: &Expr) -> Sz {
    let mut sum = 0u64;
    let mut unknown = false;
    for t in e.iter() {
        match size_tok(t) {
            Sz::Var => return Sz::Var,
            Sz::Unknown => unknown = true,
            Sz::Inv(n) => sum = sum.saturating_add(n),
        }
    }
    if unknown {
        Sz::Unknown
    }
    else {
        Sz::Inv(sum)
    }
}

/// upper estimate of the bytes of (possibly) invariant text an expression can spell out in a row:
/// exact for literals and separators, generous for what is undecided; variant tokens do not break
/// the run (conservative)
fn potential(e: &Expr) -> u64 {
    e.iter()
        .map(|t| match t {
            Tok::Lit { text, ci } => {
                if *ci && has_casing(text) {
                    3 * text.len() as u64
                }
                else {
                    text.len() as u64
                }
            },
            Tok::Sep => 1,
            Tok::Class { .. } | Tok::One => 4,
            Tok::Alt(bs) => bs.iter().map(potential).max().unwrap_or(0),
            Tok::Rep { body, lo, hi, .. } => potential(body).saturating_mul(hi.unwrap_or(*lo).max(*lo).max(1) as u64),
            _ => 0,
        })
        .fold(0u64, |a, b| a.saturating_add(b))
}

/// Some(true): some sub-expression (a token, a branch, a repetition body or the whole expression)
/// has invariant text of at least the limit — must fail.  Some(false): no way to reach the limit.
/// None: a lot of invariant text, but spread over sub-expressions that are variant or undecided
/// as a whole — the statement does not decide.
pub fn size_verdict(e: &Expr) -> Option<bool> {
    if potential(e) < SIZE_LIMIT {
        return Some(false);
    }
    fn any_oversized(e: &Expr) -> bool {
        if matches!(size_concat(e), Sz::Inv(n) if n >= SIZE_LIMIT) {
            return true;
        }
        e.iter().any(|t| {
            matches!(size_tok(t), Sz::Inv(n) if n >= SIZE_LIMIT)
                || match t {
                    Tok::Alt(bs) => bs.iter().any(any_oversized),
                    Tok::Rep { body, .. } => any_oversized(body),
                    _ => false,
                }
        })
    }
    if any_oversized(e) {
        Some(true)
    }
    else {
        None
    }
}

pub fn verdict(e: &Expr) -> RuleVerdict {
    let mut acc = Acc { fails: Vec::new(), unspecified: None };
    check_concat(e, 0, &mut acc);
    match size_verdict(e) {
        Some(true) => acc.fails.push(Rule::R7Size),
        Some(false) => {},
        None => acc.unspecified = acc.unspecified.or(Some("invariant text at the size limit spread over variant sub-expressions")),
    }
    if !acc.fails.is_empty() {
        acc.fails.sort();
        acc.fails.dedup();
        RuleVerdict::MustFail(acc.fails)
    }
    else if let Some(u) = acc.unspecified {
        RuleVerdict::Unspecified(u)
    }
    else {
        RuleVerdict::MustBuild
    }
}

/// Is rule R5 definitely violated?  (Used as the trigger of finding F-RULE-ROOT.)
pub fn rooting_violation(e: &Expr) -> bool {
    matches!(verdict(e), RuleVerdict::MustFail(r) if r.contains(&Rule::R5Rooting))
}

/// message family wax's Display uses for a rule
pub fn rule_message(r: Rule) -> &'static str {
    match r {
        Rule::R1Boundary => "adjacent component boundaries",
        Rule::R2Zom => "adjacent zero-or-more wildcards",
        Rule::R3SingularTree => "singular tree wildcard",
        Rule::R4SingularBody => "singular",
        Rule::R5Rooting => "uncertain or overlapping roots",
        Rule::R6Bounds => "incompatible repetition bounds",
        Rule::R7Size => "oversized invariant expression",
    }
}
