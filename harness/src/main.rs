//! waxverif — property-based verification harness for olson-sean-k/wax (see /verif/DESIGN.md).
//!
//! usage: waxverif <ID> [--tier quick|thorough] [--seed N] [--replay FILE]
//! exit:  0 property held on everything explored, 1 violation (VIOLATION line on stdout),
//!        2 infrastructure / generator-health trouble (never reported as a violation)


use waxverif::engine::Tier;
use waxverif::{engine, props};

fn main() {
    let args: Vec<String> = std::env::args().skip(1).collect();
    if args.is_empty() {
        eprintln!("usage: waxverif <ID> [--tier quick|thorough] [--seed N] [--replay FILE]");
        std::process::exit(2);
    }
    if args[0] == "query" {
        use wax::Program;
        for e in &args[1..] {
            match wax::Glob::new(e) {
                Ok(g) => println!(
                    "{:<28} exh={:?} root={:?} depth={:?} text={:?} rx={}",
                    e, g.is_exhaustive(), g.has_root(), g.depth(), g.text(), g.verif_program_pattern()
                ),
                Err(err) => println!("{:<28} ERR {}", e, err),
            }
        }
        return;
    }
    if args[0] == "match" {
        use wax::Program;
        let g = wax::Glob::new(&args[1]).unwrap();
        for p in &args[2..] {
            println!("{:?} -> {}", p, g.is_match(p.as_str()));
        }
        return;
    }
    if args[0] == "worker" {
        match args.get(1).map(|s| s.as_str()) {
            Some("c05") => props::c05::worker_main(),
            other => eprintln!("unknown worker kind {:?}", other),
        }
        return;
    }
    let id = args[0].to_uppercase();
    let mut tier = match std::env::var("VERIF_TIER").ok().as_deref() {
        Some("thorough") => Tier::Thorough,
        _ => Tier::Quick,
    };
    let mut seed: u64 = std::env::var("VERIF_SEED").ok().and_then(|s| s.trim().parse().ok()).unwrap_or(1);
    let mut replay: Option<String> = None;
    let mut i = 1;
    while i < args.len() {
        match args[i].as_str() {
            "--tier" => {
                i += 1;
                tier = if args.get(i).map(|s| s.as_str()) == Some("thorough") { Tier::Thorough } else { Tier::Quick };
            },
            "--seed" => {
                i += 1;
                seed = args.get(i).and_then(|s| s.parse().ok()).unwrap_or(seed);
            },
            "--replay" => {
                i += 1;
                replay = args.get(i).cloned();
            },
            other => {
                eprintln!("unknown argument {}", other);
                std::process::exit(2);
            },
        }
        i += 1;
    }
    // The checks must not depend on where they are started from: every path that comes from the
    // environment is made absolute, then the process moves to a directory that any user can
    // search (some checks re-execute themselves as an unprivileged user, and generated walk bases
    // are also spelled relative to the working directory).
    let here = std::env::current_dir().unwrap_or_else(|_| std::path::PathBuf::from("/"));
    let absolute = |p: &str| -> String {
        let pb = std::path::PathBuf::from(p);
        if pb.is_absolute() { p.to_string() } else { here.join(pb).to_string_lossy().to_string() }
    };
    if let Ok(r) = std::env::var("VERIF_ROOT") {
        std::env::set_var("VERIF_ROOT", absolute(&r));
    }
    if let Ok(t) = std::env::var("TMPDIR") {
        if !t.is_empty() {
            std::env::set_var("TMPDIR", absolute(&t));
        }
    }
    let replay = replay.map(|r| absolute(&r));
    for d in ["/var", "/usr", "/"] {
        let ok = std::fs::metadata(d).map(|m| {
            use std::os::unix::fs::PermissionsExt;
            m.is_dir() && m.permissions().mode() & 0o005 == 0o005
        });
        if ok.unwrap_or(false) && std::env::set_current_dir(d).is_ok() {
            break;
        }
    }
    engine::install_quiet_panic_hook();
    let code = props::dispatch(&id, tier, seed, replay.as_deref());
    std::process::exit(code);
}
