//! Known findings: /verif/known_findings.json (committed, never written at run time) lists them;
//! the *signatures* are coded here, next to the checks that use them.  A disagreement is
//! attributed to a finding only if the finding is listed as `open` and its coded classifier
//! (syntactic trigger + predicted wrong behaviour) matches this very case.

use serde_json::Value;
use std::collections::BTreeMap;
use std::sync::OnceLock;

#[derive(Clone, Debug)]
pub struct Finding {
    pub id: String,
    pub properties: Vec<String>,
    pub status: String,
    pub description: String,
}

static FINDINGS: OnceLock<BTreeMap<String, Finding>> = OnceLock::new();

fn load() -> BTreeMap<String, Finding> {
    let path = crate::engine::verif_root().join("known_findings.json");
    let mut out = BTreeMap::new();
    let text = match std::fs::read_to_string(&path) {
        Ok(t) => t,
        Err(_) => return out,
    };
    let v: Value = match serde_json::from_str(&text) {
        Ok(v) => v,
        Err(e) => {
            eprintln!("known_findings.json does not parse: {}", e);
            return out;
        },
    };
    if let Some(arr) = v.get("findings").and_then(|a| a.as_array()) {
        for f in arr {
            let id = f["id"].as_str().unwrap_or("").to_string();
            let properties = f["properties"]
                .as_array()
                .map(|a| a.iter().filter_map(|x| x.as_str().map(String::from)).collect())
                .unwrap_or_default();
            out.insert(
                id.clone(),
                Finding {
                    id,
                    properties,
                    status: f["status"].as_str().unwrap_or("open").to_string(),
                    description: f["description"].as_str().unwrap_or("").to_string(),
                },
            );
        }
    }
    out
}

pub fn all() -> &'static BTreeMap<String, Finding> {
    FINDINGS.get_or_init(load)
}

/// Is `id` listed as an open finding for `property`?
pub fn is_open(id: &str, property: &str) -> bool {
    all().get(id).map_or(false, |f| f.status == "open" && f.properties.iter().any(|p| p == property))
}

pub fn describe(id: &str) -> String {
    all().get(id).map(|f| f.description.clone()).unwrap_or_default()
}
