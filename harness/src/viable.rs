//! Prefix viability of a compiled program: can *some* path that extends a given prefix match?
//!
//! Used to state which I/O faults a walk is *required* to reach without mirroring how the walker
//! decides what to skip: a directory may be skipped iff nothing at or beneath it can match, i.e.
//! iff the (anchored) automaton of the glob's own program is dead after reading `dir/`.  The
//! automaton is a lazy DFA built from the same pattern text wax compiles (hook
//! `verif_program_pattern`); whether that program means what the glob means is C01's business.

use regex_automata::hybrid::dfa::{Cache, DFA};
use regex_automata::hybrid::LazyStateID;
use regex_automata::{Anchored, Input};
use std::cell::RefCell;

pub struct Viability {
    dfa: DFA,
    cache: RefCell<Cache>,
}

impl Viability {
    pub fn new(pattern: &str) -> Option<Viability> {
        let dfa = DFA::builder().configure(DFA::config().cache_capacity(8 << 20)).build(pattern).ok()?;
        let cache = RefCell::new(dfa.create_cache());
        Some(Viability { dfa, cache })
    }

    fn feed(&self, text: &str) -> Option<LazyStateID> {
        let mut cache = self.cache.borrow_mut();
        let mut sid = self.dfa.start_state_forward(&mut cache, &Input::new("").anchored(Anchored::Yes)).ok()?;
        for b in text.bytes() {
            if sid.is_dead() || sid.is_quit() {
                return Some(sid);
            }
            sid = self.dfa.next_state(&mut cache, sid, b).ok()?;
        }
        Some(sid)
    }

    /// `Some(true)`: some string that begins with `prefix` matches; `Some(false)`: none does;
    /// `None`: the automaton gave up (treated as unknown by callers).
    pub fn prefix_viable(&self, prefix: &str) -> Option<bool> {
        let sid = self.feed(prefix)?;
        if sid.is_quit() {
            return None;
        }
        Some(!sid.is_dead())
    }

    /// does `text` itself match?
    pub fn matches(&self, text: &str) -> Option<bool> {
        let sid = self.feed(text)?;
        if sid.is_quit() {
            return None;
        }
        if sid.is_dead() {
            return Some(false);
        }
        let mut cache = self.cache.borrow_mut();
        let eoi = self.dfa.next_eoi_state(&mut cache, sid).ok()?;
        Some(eoi.is_match())
    }

    /// can a path strictly beneath the directory `dir` match?  (`dir` = "" is the walk root of a
    /// relative glob: any non-empty path that does not begin with a separator)
    pub fn beneath_viable(&self, dir: &str) -> Option<bool> {
        if dir.is_empty() {
            let sid = self.feed("")?;
            if sid.is_dead() {
                return Some(false);
            }
            let mut cache = self.cache.borrow_mut();
            for b in 0u8..=255 {
                if b == b'/' {
                    continue;
                }
                let n = self.dfa.next_state(&mut cache, sid, b).ok()?;
                if !n.is_dead() && !n.is_quit() {
                    return Some(true);
                }
            }
            return Some(false);
        }
        let with_sep = if dir.ends_with('/') { dir.to_string() } else { format!("{}/", dir) };
        // something must follow the separator
        let sid = self.feed(&with_sep)?;
        if sid.is_quit() {
            return None;
        }
        if sid.is_dead() {
            return Some(false);
        }
        let mut cache = self.cache.borrow_mut();
        for b in 0u8..=255 {
            if b == b'/' {
                continue;
            }
            let n = self.dfa.next_state(&mut cache, sid, b).ok()?;
            if !n.is_dead() && !n.is_quit() {
                return Some(true);
            }
        }
        Some(false)
    }
}

#[cfg(test)]
mod tests {
    use super::*;
    #[test]
    fn basics() {
        let v = Viability::new("(?s)^(?-i)abc$").unwrap();
        assert_eq!(v.prefix_viable("ab"), Some(true));
        assert_eq!(v.beneath_viable("ab"), Some(false));
        assert_eq!(v.matches("abc"), Some(true));
        assert_eq!(v.beneath_viable("abc"), Some(false));
        let v = Viability::new("(?s)^(?-i)a(?:[/]|[/](.*[/]))(?-i)b$").unwrap();
        assert_eq!(v.beneath_viable("a"), Some(true));
        assert_eq!(v.beneath_viable("a/x/y"), Some(true));
        assert_eq!(v.beneath_viable("b"), Some(false));
        assert_eq!(v.beneath_viable(""), Some(true));
        let v = Viability::new("(?s)^$").unwrap();
        assert_eq!(v.beneath_viable(""), Some(false));
    }
}
