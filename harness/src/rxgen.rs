//! Regex-directed path generator: random walk through the HIR of the regular expression wax
//! compiled (hook `verif_program_pattern`) to emit a string the *implementation* accepts.  This is
//! only a source of inputs (it finds false accepts without luck); verdicts come from the oracles.

use crate::gen::{Tape, PATH_ALPHA};
use regex_syntax::hir::{Class, Hir, HirKind};

pub fn sample(pattern: &str, t: &mut Tape) -> Option<String> {
    let hir = regex_syntax::Parser::new().parse(pattern).ok()?;
    let mut out = String::new();
    if walk(&hir, t, &mut out, 0) {
        Some(out)
    }
    else {
        None
    }
}

fn walk(h: &Hir, t: &mut Tape, out: &mut String, depth: usize) -> bool {
    if out.len() > 200 || depth > 64 {
        return false;
    }
    match h.kind() {
        HirKind::Empty | HirKind::Look(_) => true,
        HirKind::Literal(l) => match std::str::from_utf8(&l.0) {
            Ok(s) => {
                out.push_str(s);
                true
            },
            Err(_) => false,
        },
        HirKind::Class(Class::Unicode(c)) => {
            let ranges: Vec<(char, char)> = c.ranges().iter().map(|r| (r.start(), r.end())).collect();
            if ranges.is_empty() {
                return false;
            }
            let inside = |x: char| ranges.iter().any(|(a, b)| *a <= x && x <= *b);
            let pool: Vec<char> = PATH_ALPHA
                .iter()
                .copied()
                .chain(['/', 'x', 'X', 'z'])
                .filter(|c| inside(*c))
                .collect();
            if !pool.is_empty() && !t.chance(24) {
                out.push(t.pick(&pool));
            }
            else {
                let (a, b) = t.pick(&ranges);
                let c = if t.chance(128) { b } else { a };
                // no NUL in candidate paths
                out.push(if c == '\0' { '\u{1}' } else { c });
            }
            true
        },
        HirKind::Class(Class::Bytes(_)) => false,
        HirKind::Repetition(r) => {
            let min = r.min as usize;
            let max = r.max.map(|m| m as usize).unwrap_or(min + 3).min(min + 3);
            let k = min + t.below(max - min + 1);
            for _ in 0..k {
                if !walk(&r.sub, t, out, depth + 1) {
                    return false;
                }
            }
            true
        },
        HirKind::Capture(c) => walk(&c.sub, t, out, depth + 1),
        HirKind::Concat(v) => {
            for x in v {
                if !walk(x, t, out, depth + 1) {
                    return false;
                }
            }
            true
        },
        HirKind::Alternation(v) => {
            let k = t.below(v.len());
            walk(&v[k], t, out, depth + 1)
        },
    }
}
