//! Addressing and rewriting sub-expressions of the harness AST (used by the metamorphic checks).

use crate::ast::*;
use serde::{Deserialize, Serialize};

#[derive(Clone, Copy, Debug, PartialEq, Eq, Hash, Serialize, Deserialize)]
pub enum Step {
    /// token index in the current concatenation
    Tok(usize),
    /// branch index of the alternation just selected
    Branch(usize),
    /// body of the repetition just selected
    Body,
}

pub type Loc = Vec<Step>;

/// Locations of all tokens satisfying `pred` (pre-order).  A location ends with `Step::Tok`.
pub fn locations(e: &Expr, pred: &dyn Fn(&Tok) -> bool) -> Vec<Loc> {
    fn go(e: &Expr, prefix: &mut Loc, pred: &dyn Fn(&Tok) -> bool, out: &mut Vec<Loc>) {
        for (i, t) in e.iter().enumerate() {
            prefix.push(Step::Tok(i));
            if pred(t) {
                out.push(prefix.clone());
            }
            match t {
                Tok::Alt(bs) => {
                    for (j, b) in bs.iter().enumerate() {
                        prefix.push(Step::Branch(j));
                        go(b, prefix, pred, out);
                        prefix.pop();
                    }
                },
                Tok::Rep { body, .. } => {
                    prefix.push(Step::Body);
                    go(body, prefix, pred, out);
                    prefix.pop();
                },
                _ => {},
            }
            prefix.pop();
        }
    }
    let mut out = Vec::new();
    go(e, &mut Vec::new(), pred, &mut out);
    out
}

/// nesting depth of a location (number of enclosing branch tokens)
pub fn loc_depth(loc: &Loc) -> usize {
    loc.iter().filter(|s| matches!(s, Step::Branch(_) | Step::Body)).count()
}

pub fn get_at<'a>(e: &'a Expr, loc: &[Step]) -> Option<&'a Tok> {
    let (conc, i) = concat_of(e, loc)?;
    conc.get(i)
}

/// the concatenation that contains the token addressed by `loc`, and the token's index in it
pub fn concat_of<'a>(e: &'a Expr, loc: &[Step]) -> Option<(&'a Expr, usize)> {
    let mut cur: &Expr = e;
    let mut k = 0;
    loop {
        let i = match loc.get(k)? {
            Step::Tok(i) => *i,
            _ => return None,
        };
        if k + 1 == loc.len() {
            return Some((cur, i));
        }
        let t = cur.get(i)?;
        cur = match (t, loc.get(k + 1)?) {
            (Tok::Alt(bs), Step::Branch(j)) => bs.get(*j)?,
            (Tok::Rep { body, .. }, Step::Body) => body,
            _ => return None,
        };
        k += 2;
    }
}

/// Replace the token range `[i, j)` of the concatenation addressed by `loc` (whose last step
/// `Tok(i)` gives the start) with `with`.
pub fn splice_at(e: &Expr, loc: &[Step], len: usize, with: &[Tok]) -> Option<Expr> {
    fn go(e: &Expr, loc: &[Step], len: usize, with: &[Tok]) -> Option<Expr> {
        let i = match loc.first()? {
            Step::Tok(i) => *i,
            _ => return None,
        };
        let mut out = e.clone();
        if loc.len() == 1 {
            if i + len > e.len() {
                return None;
            }
            out.splice(i..i + len, with.iter().cloned());
            return Some(out);
        }
        let t = e.get(i)?;
        out[i] = match (t, &loc[1]) {
            (Tok::Alt(bs), Step::Branch(j)) => {
                let mut nb = bs.clone();
                *nb.get_mut(*j)? = go(bs.get(*j)?, &loc[2..], len, with)?;
                Tok::Alt(nb)
            },
            (Tok::Rep { body, lo, hi, spell }, Step::Body) => {
                Tok::Rep { body: go(body, &loc[2..], len, with)?, lo: *lo, hi: *hi, spell: *spell }
            },
            _ => return None,
        };
        Some(out)
    }
    go(e, loc, len, with)
}

/// `true` when the AST survives normalisation unchanged, i.e. its rendering parses back to the
/// same structure (no tree wildcard lost its delimiter, no empty branch, …).
pub fn is_wellformed(e: &Expr) -> bool {
    let n = normalize(e, true);
    n == *e
}

/// Is the token at `loc` inside the body of a repetition that may iterate more than once?  (Then
/// each iteration chooses independently and substitution / unrolling are only one-directional.)
pub fn enclosed_by_multi_rep(e: &Expr, loc: &[Step]) -> bool {
    let mut cur: &Expr = e;
    let mut k = 0;
    while k + 1 < loc.len() {
        let i = match loc[k] {
            Step::Tok(i) => i,
            _ => return false,
        };
        let t = match cur.get(i) {
            Some(t) => t,
            None => return false,
        };
        cur = match (t, &loc[k + 1]) {
            (Tok::Alt(bs), Step::Branch(j)) => match bs.get(*j) {
                Some(b) => b,
                None => return false,
            },
            (Tok::Rep { body, hi, .. }, Step::Body) => {
                if *hi != Some(1) {
                    return true;
                }
                body
            },
            _ => return false,
        };
        k += 2;
    }
    false
}
