//! Glue between the cargo-fuzz targets (/verif/fuzz) and the property checks: the in-target
//! oracle is the very function the proptest check uses.  A violation writes a replay file (plain
//! JSON case) and aborts, so that libFuzzer saves the input; wax panics that an open finding
//! explains are tolerated (the quiet panic hook replaces libFuzzer's abort-on-panic hook, the
//! checks catch unwinds themselves).

use crate::engine::{hash_of, install_quiet_panic_hook, verif_root, Property, Stats};
use crate::gen::Tape;
use serde_json::json;
use std::sync::Once;

static INIT: Once = Once::new();

fn init() {
    INIT.call_once(install_quiet_panic_hook);
}

pub fn report<C: serde::Serialize>(id: &str, case: &C, msg: &str) -> ! {
    let case = serde_json::to_value(case).unwrap_or(json!(null));
    let dir = verif_root().join("violations").join(id);
    let _ = std::fs::create_dir_all(&dir);
    let f = dir.join(format!("fuzz-{:016x}.json", hash_of(&case.to_string())));
    let body = json!({"property": id, "message": msg, "case": case, "found_by": "libFuzzer"});
    let _ = std::fs::write(&f, serde_json::to_string_pretty(&body).unwrap() + "\n");
    eprintln!("violation detail: {}", msg);
    eprintln!("VIOLATION property={} replay={}", id, f.display());
    std::process::abort();
}

pub fn run_tape<P: Property>(p: &P, data: &[u8]) {
    init();
    let mut t = Tape::new(data);
    let case = p.decode(&mut t);
    let mut st = Stats::default();
    st.frozen = true;
    if let Err(m) = p.check(&case, &mut st) {
        report(p.id(), &case, &m);
    }
}

pub fn run_total(data: &[u8]) {
    init();
    let text = String::from_utf8_lossy(data).to_string();
    if let Err((case, m)) = crate::props::c05::judge_in_process(&text) {
        report("C05", &case, &m);
    }
}

pub fn run_spans(data: &[u8]) {
    init();
    let text = String::from_utf8_lossy(data).to_string();
    let case = crate::props::c17::Case::Raw { text };
    let mut st = Stats::default();
    st.frozen = true;
    if let Err(m) = crate::props::c17::C17.check(&case, &mut st) {
        report("C17", &case, &m);
    }
}

pub fn run_escape(data: &[u8]) {
    init();
    let text = String::from_utf8_lossy(data).to_string();
    let case = crate::props::c18::Case { text };
    let mut st = Stats::default();
    st.frozen = true;
    if let Err(m) = crate::props::c18::C18.check(&case, &mut st) {
        report("C18", &case, &m);
    }
}
