//! C03 — Negated walks discard exactly the entries that match the negation.

use crate::ast::*;
use crate::engine::*;
use crate::fsmodel::*;
use crate::gen::*;
use crate::props::c02::{full_glob, gen_shape, Shape};
use crate::props::common::*;
use crate::props::fscommon::*;
use serde::{Deserialize, Serialize};
use serde_json::json;
use std::collections::BTreeMap;
use wax::walk::{DepthMax, Entry, FileIterator, LinkBehavior, PathExt, WalkBehavior};
use wax::{BuildError, Glob};

pub struct C03;

#[derive(Serialize, Deserialize, Clone, Debug)]
pub enum Under {
    Path,
    Glob { shape: Shape, glob: Expr },
}

#[derive(Serialize, Deserialize, Clone, Debug)]
pub enum Neg {
    Text(Expr),
    Compiled(Expr),
    AnyText(Vec<Expr>),
    AnyCompiled(Vec<Expr>),
    AnyNested(Vec<Expr>),
    Empty,
}

impl Neg {
    pub fn exprs(&self) -> Vec<Expr> {
        match self {
            Neg::Text(e) | Neg::Compiled(e) => vec![e.clone()],
            Neg::AnyText(v) | Neg::AnyCompiled(v) | Neg::AnyNested(v) => v.clone(),
            Neg::Empty => vec![vec![]],
        }
    }
    pub fn map_exprs(&self, f: &dyn Fn(&Expr) -> Expr) -> Neg {
        match self {
            Neg::Text(e) => Neg::Text(f(e)),
            Neg::Compiled(e) => Neg::Compiled(f(e)),
            Neg::AnyText(v) => Neg::AnyText(v.iter().map(f).collect()),
            Neg::AnyCompiled(v) => Neg::AnyCompiled(v.iter().map(f).collect()),
            Neg::AnyNested(v) => Neg::AnyNested(v.iter().map(f).collect()),
            Neg::Empty => Neg::Empty,
        }
    }
}

#[derive(Serialize, Deserialize, Clone, Debug)]
pub struct Case {
    pub tree: TreeSpec,
    pub base: Base,
    pub under: Under,
    pub neg: Neg,
    pub max_depth: Option<usize>,
    /// walk with `LinkBehavior::ReadTarget` (then re-entrant / dangling links are error items,
    /// which are not entries: the negation may or may not discard the tree they sit in)
    #[serde(default)]
    pub follow: bool,
    /// the underlying glob and every alternative of the negation that does not begin with a tree
    /// wildcard are spelled with the absolute path of the tree in front (the walk of a rooted glob
    /// has an empty root segment: its entries' relative paths are absolute)
    #[serde(default)]
    pub rooted: bool,
}

/// one item of a walk together with the root-relative candidate text of Ok entries
#[derive(Clone, Debug, PartialEq, Eq, PartialOrd, Ord)]
pub struct Item {
    pub seen: Seen,
    pub rel: Option<String>,
}

pub fn collect<I>(it: I, cap: usize) -> (Vec<Item>, bool)
where
    I: Iterator,
    I::Item: IntoItem,
{
    let mut out = Vec::new();
    for x in it {
        if out.len() >= cap {
            return (out, true);
        }
        out.push(x.into_item());
    }
    (out, false)
}

pub trait IntoItem {
    fn into_item(self) -> Item;
}

impl<E: Entry> IntoItem for Result<E, wax::walk::WalkError> {
    fn into_item(self) -> Item {
        match self {
            Ok(e) => Item {
                seen: Seen::Ok { path: norm(e.path()), depth: e.depth(), is_dir: e.file_type().is_dir() },
                rel: Some(e.root_relative_paths().1.to_string_lossy().to_string()),
            },
            Err(e) => Item { seen: Seen::Err { path: e.path().map(norm), depth: e.depth() }, rel: None },
        }
    }
}

/// apply the negation to a walk and collect; Err = the negation does not build
pub fn run_not<I>(walk: I, neg: &Neg, cap: usize) -> Result<(Vec<Item>, bool), BuildError>
where
    I: FileIterator + 'static,
    I::Entry: 'static,
    I::Residue: 'static,
{
    let texts: Vec<String> = neg.exprs().iter().map(render_text).collect();
    Ok(match neg {
        Neg::Text(_) => collect(walk.not(texts[0].as_str())?, cap),
        Neg::Empty => collect(walk.not("")?, cap),
        Neg::Compiled(_) => collect(walk.not(Glob::new(&texts[0])?)?, cap),
        Neg::AnyText(_) => collect(walk.not(wax::any(texts.iter().map(|s| s.as_str())))?, cap),
        Neg::AnyCompiled(_) => {
            let mut gs = Vec::new();
            for t in &texts {
                gs.push(Glob::new(t)?);
            }
            collect(walk.not(wax::any(gs))?, cap)
        },
        Neg::AnyNested(_) => {
            let first = wax::any([Glob::new(&texts[0])?]);
            let rest = wax::any(texts.iter().map(|s| s.as_str()));
            collect(walk.not(wax::any([first, rest]))?, cap)
        },
    })
}

pub fn behavior(max_depth: Option<usize>, follow: bool) -> WalkBehavior {
    let mut b = WalkBehavior::default();
    if let Some(m) = max_depth {
        b.depth = DepthMax(m).into();
    }
    if follow {
        b.link = LinkBehavior::ReadTarget;
    }
    b
}

fn gen_neg_expr(t: &mut Tape, names: &[String]) -> Expr {
    let name = |t: &mut Tape| Tok::lit(&t.pick(names));
    let tree_end = Tok::Tree { lead: true, trail: false };
    let prefix_of = |t: &mut Tape| -> Tok {
        // first character of an existing name, so that `p*` matches some entries
        let n = t.pick(names);
        Tok::lit(&n.chars().next().map(String::from).unwrap_or_else(|| "a".into()))
    };
    let x: Vec<Tok> = match t.below(13) {
        9 => vec![Tok::Alt(vec![vec![prefix_of(t), Tok::Zom { lazy: false }]])],
        10 => vec![Tok::Alt(vec![vec![prefix_of(t), Tok::Zom { lazy: false }], vec![prefix_of(t), Tok::Zom { lazy: false }]])],
        11 => vec![Tok::Rep { body: vec![prefix_of(t), Tok::Zom { lazy: false }], lo: 1, hi: Some(2), spell: 0 }],
        12 => vec![Tok::Alt(vec![vec![Tok::Zom { lazy: false }, prefix_of(t)]])],
        0 => vec![name(t)],
        1 => vec![Tok::Alt(vec![vec![name(t)]])],
        2 => vec![Tok::Alt(vec![vec![name(t)], vec![name(t)]])],
        3 => vec![Tok::Rep { body: vec![name(t)], lo: 1, hi: Some(2), spell: 0 }],
        4 => vec![Tok::Alt(vec![vec![name(t)], vec![name(t), tree_end.clone()]])],
        5 => vec![Tok::Zom { lazy: false }],
        6 => vec![Tok::Rep { body: vec![Tok::Zom { lazy: false }, Tok::Sep], lo: 0, hi: None, spell: 1 }],
        7 => vec![name(t), Tok::Zom { lazy: false }],
        _ => vec![Tok::Zom { lazy: false }, Tok::lit(".rs")],
    };
    let mut e: Expr = Vec::new();
    match t.below(6) {
        0 => {
            e.push(Tok::Tree { lead: false, trail: true });
            e.extend(x);
        },
        1 => {
            e.extend(x);
            e.push(tree_end);
        },
        2 => {
            e.push(Tok::Tree { lead: false, trail: true });
            e.extend(x);
            e.push(tree_end);
        },
        3 => {
            e.extend(x);
        },
        4 => {
            e.push(name(t));
            e.push(Tok::Sep);
            e.extend(x);
        },
        _ => {
            return crate::props::c09::gen_tail_expr(t);
        },
    }
    merge_lits(&normalize(&e, true))
}

pub fn gen_neg(t: &mut Tape, tree: &TreeSpec) -> Neg {
    let names = tree_names(tree);
    let one = |t: &mut Tape| -> Expr {
        if t.chance(50) {
            gen_expr(t, &fs_glob_cfg(tree))
        }
        else if t.chance(90) {
            // negations that hit existing entries exactly: `a/b/**`, `**/b/**`, `a/b`
            crate::props::stacks::gen_not_expr(t, tree)
        }
        else {
            gen_neg_expr(t, &names)
        }
    };
    match t.weighted(&[34, 18, 14, 14, 10, 10]) {
        0 => Neg::Text(one(t)),
        1 => Neg::Compiled(one(t)),
        2 => {
            let n = 1 + t.below(3);
            Neg::AnyText((0..n).map(|_| one(t)).collect())
        },
        3 => {
            let n = 1 + t.below(3);
            Neg::AnyCompiled((0..n).map(|_| one(t)).collect())
        },
        4 => {
            let n = 1 + t.below(2);
            Neg::AnyNested((0..n).map(|_| one(t)).collect())
        },
        _ => Neg::Empty,
    }
}

impl Property for C03 {
    type Case = Case;
    fn id(&self) -> &'static str {
        "C03"
    }
    fn rule(&self) -> String {
        "generated trees x underlying walks (Path::walk; Glob::walk with `**`, selective globs and \
         invariant prefixes; optional maximum depth; a tenth with link targets read) x negations (expression text, compiled glob, \
         any() of 1-3 as text / compiled / nested, the empty pattern; biased to `**/X`, `X/**`, \
         `**/X/**` with X a literal, `{a}`, `{a,b}`, `<a:1,2>`, `{a,b/**}`, `*`, `<*/>`); one \
         evaluation = one negated walk compared (as a sorted multiset incl. error items) with the \
         same walk filtered per entry, plus pure-path checks of the exhaustive / non-exhaustive \
         partition (hook) over all ancestor/descendant pairs of the tree; non-trivial = the \
         negation matches a directory that has a child it does not match, or discards a \
         directory as a tree; distinct by (tree, walk, negation)"
            .into()
    }
    fn assumptions(&self) -> Vec<String> {
        vec![
            "the per-entry filter uses the pattern's own is_match on entry.root_relative_paths().1".into(),
            "a negation that does not build is outside the domain".into(),
        ]
    }
    fn budget(&self, tier: Tier) -> (u32, u32) {
        match tier {
            Tier::Quick => (2000, 8),
            Tier::Thorough => (12000, 16),
        }
    }
    fn tape_len(&self) -> usize {
        320
    }
    fn required_counters(&self) -> Vec<&'static str> {
        vec!["walks", "under_path", "under_glob", "neg_any", "neg_empty", "tree_discarded", "partially_matched_directory", "with_max_depth", "partition_pairs_checked", "negation_matches_directory_link", "read_target_walks", "negation_matches_non_utf8_name", "rooted_negation_matches_under_rooted_walk"]
    }
    fn decode(&self, t: &mut Tape) -> Case {
        // symbolic links (to files and directories) in a third of the trees: under the default
        // link behaviour they are leaves, also when a negation discards them "as a tree"
        let links = t.chance(85);
        let tree = gen_tree(t, &TreeCfg { links, non_utf8: true, ..TreeCfg::default() });
        let base = if t.chance(60) { gen_base(t, &tree) } else { Base::Abs };
        let under = if t.chance(130) {
            Under::Path
        }
        else {
            let shape = match gen_shape(t, &tree, &base) {
                Shape::Rooted | Shape::Dots(_) => Shape::Plain,
                s => s,
            };
            let glob = match t.below(4) {
                0 => vec![Tok::Tree { lead: false, trail: false }],
                1 => {
                    // a pruning glob: a selective first component, then anything
                    let names = tree_names(&tree);
                    let first = match t.below(3) {
                        0 => vec![Tok::Zom { lazy: false }, Tok::lit(&t.pick(&names).chars().last().map(String::from).unwrap_or_default())],
                        1 => vec![Tok::Alt(vec![vec![Tok::lit(&t.pick(&names))], vec![Tok::lit(&t.pick(&names))]])],
                        _ => vec![Tok::One, Tok::Zom { lazy: false }],
                    };
                    let mut e = first;
                    e.push(Tok::Tree { lead: true, trail: false });
                    normalize(&e, true)
                },
                _ => gen_expr(t, &fs_glob_cfg(&tree)),
            };
            Under::Glob { shape, glob }
        };
        let neg = gen_neg(t, &tree);
        let max_depth = if t.chance(50) { Some(t.below(4)) } else { None };
        let follow = links && t.chance(90);
        let rooted = matches!(under, Under::Glob { .. }) && t.chance(45);
        Case { tree, base, under, neg, max_depth, follow, rooted }
    }
    fn directed(&self) -> Vec<Case> {
        let d = |p: &str| Node { path: p.into(), kind: Kind::Dir, unreadable: false };
        let f = |p: &str| Node { path: p.into(), kind: Kind::File, unreadable: false };
        let tree = TreeSpec { nodes: vec![d("a"), f("a/h"), d("a/x"), f("a/x/g"), f("b")] };
        vec![
            Case {
                tree: tree.clone(),
                base: Base::Abs,
                under: Under::Path,
                neg: Neg::Text(vec![Tok::Tree { lead: false, trail: true }, Tok::Alt(vec![vec![Tok::lit("a")]])]),
                max_depth: None,
                follow: false,
                rooted: false,
            },
            Case {
                tree,
                base: Base::Abs,
                under: Under::Path,
                neg: Neg::Text(vec![Tok::Rep { body: vec![Tok::Zom { lazy: false }, Tok::Sep], lo: 0, hi: None, spell: 1 }]),
                max_depth: None,
                follow: false,
                rooted: false,
            },
        ]
    }
    fn shrink(&self, c: &Case) -> Vec<Case> {
        let mut out = Vec::new();
        for i in (0..c.tree.nodes.len()).rev() {
            let p = &c.tree.nodes[i].path;
            let referenced = match (&c.base, &c.under) {
                (Base::Sub(d), _) if d == p || d.starts_with(&format!("{}/", p)) => true,
                (_, Under::Glob { shape: Shape::Prefixed(d, _), .. }) if d.contains(p.as_str()) => true,
                _ => false,
            };
            if referenced {
                continue;
            }
            let nodes: Vec<Node> = c.tree.nodes.iter().filter(|n| n.path != *p && !n.path.starts_with(&format!("{}/", p))).cloned().collect();
            out.push(Case { tree: TreeSpec { nodes }, ..c.clone() });
        }
        if c.max_depth.is_some() {
            out.push(Case { max_depth: None, ..c.clone() });
        }
        if !matches!(c.under, Under::Path) {
            out.push(Case { under: Under::Path, ..c.clone() });
        }
        match &c.neg {
            Neg::AnyText(v) | Neg::AnyCompiled(v) | Neg::AnyNested(v) => {
                for e in v {
                    out.push(Case { neg: Neg::Text(e.clone()), ..c.clone() });
                }
            },
            Neg::Compiled(e) => out.push(Case { neg: Neg::Text(e.clone()), ..c.clone() }),
            _ => {},
        }
        if let Neg::Text(e) = &c.neg {
            for s in shrink_expr(e) {
                out.push(Case { neg: Neg::Text(normalize(&s, true)), ..c.clone() });
            }
        }
        out
    }
    fn check(&self, case: &Case, st: &mut Stats) -> CheckResult {
        let s = match Scratch::create(&case.tree) {
            Ok(s) => s,
            Err(_) => {
                st.count("scratch_failed");
                return Ok(());
            },
        };
        let root_abs = s.root.to_string_lossy().to_string();
        let rooted_case;
        let case = if case.rooted {
            let pre = |e: &Expr| -> Expr {
                match strip_flags(e).first() {
                    Some(Tok::Tree { .. }) | None => e.clone(),
                    _ if starts_rooting_expr(&strip_flags(e)) => e.clone(),
                    _ => crate::props::c02::join_prefix(&root_abs, 0, e),
                }
            };
            let neg = match &case.neg {
                Neg::Text(e) => Neg::Text(pre(e)),
                Neg::Compiled(e) => Neg::Compiled(pre(e)),
                Neg::AnyText(v) => Neg::AnyText(v.iter().map(pre).collect()),
                Neg::AnyCompiled(v) => Neg::AnyCompiled(v.iter().map(pre).collect()),
                Neg::AnyNested(v) => Neg::AnyNested(v.iter().map(pre).collect()),
                Neg::Empty => Neg::Empty,
            };
            let under = match &case.under {
                Under::Glob { glob, .. } => Under::Glob { shape: Shape::Rooted, glob: glob.clone() },
                u => u.clone(),
            };
            rooted_case = Case { neg, under, max_depth: None, ..case.clone() };
            &rooted_case
        }
        else {
            case
        };
        // the negation must build (as a pattern for is_match)
        let nexprs = case.neg.exprs();
        let (ntext, npat) = match build_pat(&nexprs) {
            Ok(Some(x)) => x,
            Ok(None) => {
                st.count("negation_not_built");
                return Ok(());
            },
            Err(_) => {
                st.panicked += 1;
                return Ok(());
            },
        };
        let (base_given, base_abs) = base_paths(&case.base, &s);
        if !base_abs.is_dir() {
            st.count("base_missing");
            return Ok(());
        }
        let cap = 20 * (case.tree.nodes.len() + 10);
        let beh = behavior(case.max_depth, case.follow);
        if case.follow {
            st.count("read_target_walks");
        }
        if case.max_depth.is_some() {
            st.count("with_max_depth");
        }
        // underlying walk twice: plain (for the per-entry filter) and negated
        let result = guard(|| -> Result<Option<((Vec<Item>, bool), (Vec<Item>, bool), String)>, BuildError> {
            match &case.under {
                Under::Path => {
                    let plain = collect(base_given.walk_with_behavior(beh), cap);
                    let negated = run_not(base_given.walk_with_behavior(beh), &case.neg, cap)?;
                    Ok(Some((plain, negated, "Path::walk".to_string())))
                },
                Under::Glob { shape, glob } => {
                    let expr = full_glob(shape, glob, &root_abs);
                    if (*shape != Shape::Rooted && starts_rooting_expr(&strip_flags(&expr))) || has_sep_class(&expr) || (*shape == Shape::Rooted && starts_rooting_expr(&strip_flags(glob))) {
                        return Ok(None);
                    }
                    let text = render_text(&expr);
                    let g = match Glob::new(&text) {
                        Ok(g) => g,
                        Err(_) => return Ok(None),
                    };
                    if prefix_dot_components(&g) > 0 {
                        // never follow `..` (however it is spelled) out of the scratch directory
                        return Ok(None);
                    }
                    let plain = collect(g.walk_with_behavior(base_given.clone(), beh), cap);
                    let negated = run_not(g.walk_with_behavior(base_given.clone(), beh), &case.neg, cap)?;
                    Ok(Some((plain, negated, format!("Glob(`{}`)::walk", text))))
                },
            }
        });
        let ((plain, c1), (negated, c2), under_text) = match result {
            Ok(Ok(Some(x))) => x,
            Ok(Ok(None)) => {
                st.count("underlying_not_built");
                return Ok(());
            },
            Ok(Err(e)) => {
                return Err(format!("negation {} builds as a pattern but `not` refuses it: {}", ntext, e));
            },
            Err(m) => {
                return Err(format!("walk with negation {} panicked: {}", ntext, m));
            },
        };
        match &case.under {
            Under::Path => st.count("under_path"),
            _ => st.count("under_glob"),
        }
        if case.rooted && nexprs.iter().any(|e| starts_rooting_expr(&strip_flags(e))) && plain.iter().any(|it| it.rel.as_ref().map_or(false, |r| npat.is_match(r.as_str()))) {
            st.count("rooted_negation_matches_under_rooted_walk");
        }
        match &case.neg {
            Neg::Empty => st.count("neg_empty"),
            Neg::AnyText(_) | Neg::AnyCompiled(_) | Neg::AnyNested(_) => st.count("neg_any"),
            _ => {},
        }
        st.count("walks");
        st.eval(1);
        if c1 || c2 {
            return Err(format!("{} .not({}): the walk did not terminate within {} items", under_text, ntext, cap));
        }
        // expected = plain filtered per entry
        let mut expected: BTreeMap<Item, usize> = BTreeMap::new();
        let mut plain_errors: BTreeMap<Item, usize> = BTreeMap::new();
        for it in &plain {
            let keep = match &it.rel {
                Some(rel) => {
                    let m = npat.is_match(rel);
                    if m && rel.contains('\u{FFFD}') {
                        // a name that is not valid UTF-8 is matched through its lossy text
                        st.count("negation_matches_non_utf8_name");
                    }
                    !m
                },
                None => {
                    if case.follow {
                        // link errors are not entries: required neither to stay nor to go
                        *plain_errors.entry(it.clone()).or_insert(0) += 1;
                        false
                    }
                    else {
                        true
                    }
                },
            };
            if keep {
                *expected.entry(it.clone()).or_insert(0) += 1;
            }
        }
        let mut actual: BTreeMap<Item, usize> = BTreeMap::new();
        for it in &negated {
            if case.follow && it.rel.is_none() {
                match plain_errors.get_mut(it) {
                    Some(n) if *n > 0 => *n -= 1,
                    _ => return Err(format!("{} .not({}): error item {:?} that the underlying walk does not produce", under_text, ntext, it.seen)),
                }
                continue;
            }
            *actual.entry(it.clone()).or_insert(0) += 1;
        }
        // statistics: directories matched with an unmatched child / discarded as trees
        let (exh, nonexh) = match guard(|| neg_patterns(&case.neg)) {
            Ok(Ok(x)) => x,
            _ => (None, None),
        };
        let exh_rx = exh.as_ref().and_then(|p| regex::Regex::new(p).ok());
        let nonexh_rx = nonexh.as_ref().and_then(|p| regex::Regex::new(p).ok());
        let mut tree_discard = false;
        let mut partial = false;
        for it in &plain {
            if let (Seen::Ok { is_dir: true, .. }, Some(rel)) = (&it.seen, &it.rel) {
                if npat.is_match(rel) {
                    if exh_rx.as_ref().map_or(false, |r| r.is_match(rel)) {
                        tree_discard = true;
                    }
                    let prefix = if rel.is_empty() { String::new() } else { format!("{}/", rel) };
                    if plain.iter().any(|c| c.rel.as_ref().map_or(false, |r| r != rel && r.starts_with(&prefix) && !npat.is_match(r))) {
                        partial = true;
                    }
                }
            }
        }
        if tree_discard {
            st.count("tree_discarded");
        }
        {
            let links: Vec<&str> = case.tree.nodes.iter().filter(|n| matches!(&n.kind, Kind::Link(t) if t.is_empty() || case.tree.nodes.iter().any(|m| m.path == *t && m.kind == Kind::Dir))).map(|n| n.path.as_str()).collect();
            if plain.iter().any(|it| it.rel.as_ref().map_or(false, |r| npat.is_match(r.as_str()) && links.iter().any(|l| r == l || r.ends_with(&format!("/{}", l))))) {
                st.count("negation_matches_directory_link");
            }
        }
        if partial {
            st.count("partially_matched_directory");
        }
        if actual != expected {
            let missing: Vec<&Item> = expected.keys().filter(|k| actual.get(*k) != expected.get(*k) && actual.get(*k).copied().unwrap_or(0) < expected[*k]).collect();
            let extra: Vec<&Item> = actual.keys().filter(|k| actual[*k] > expected.get(*k).copied().unwrap_or(0)).collect();
            // known exhaustiveness findings: every missing entry lies beneath a directory that the
            // exhaustive program matched, and (directory, entry) is explained by a finding
            let mut explained: Option<&'static str> = None;
            if extra.is_empty() && !missing.is_empty() {
                let mut all = true;
                for m in &missing {
                    let rel = match &m.rel {
                        Some(r) => r,
                        None => {
                            all = false;
                            break;
                        },
                    };
                    // nearest discarded ancestor
                    let mut anc: Option<String> = None;
                    let comps: Vec<&str> = rel.split('/').collect();
                    for k in 0..comps.len() {
                        let a = comps[..k].join("/");
                        if exh_rx.as_ref().map_or(false, |r| r.is_match(&a)) {
                            anc = Some(a);
                            break;
                        }
                    }
                    match anc.and_then(|a| crate::props::c09::classify_exh(&nexprs, &npat, &a, rel, "C03")) {
                        Some(f) => explained = Some(f),
                        None => {
                            all = false;
                            break;
                        },
                    }
                }
                if !all {
                    explained = None;
                }
            }
            if let Some(f) = explained {
                st.known(f, || format!("{} .not({}) loses {:?}", under_text, ntext, missing.iter().filter_map(|m| m.rel.clone()).collect::<Vec<_>>()));
            }
            else {
                return Err(format!(
                    "{} from {:?} .not({}) [{:?}] differs from filtering each entry: lost {:?}, unexpected {:?}",
                    under_text,
                    case.base,
                    ntext,
                    case.neg,
                    missing.iter().map(|m| format!("{:?}", m.seen)).collect::<Vec<_>>(),
                    extra.iter().map(|m| format!("{:?}", m.seen)).collect::<Vec<_>>()
                ));
            }
        }
        // (b) pure-path partition checks over all ancestor/descendant pairs of the tree
        let mut rels: Vec<String> = vec![String::new()];
        rels.extend(case.tree.nodes.iter().map(|n| n.path.clone()));
        for p in &rels {
            let m = npat.is_match(p);
            let e = exh_rx.as_ref().map_or(false, |r| r.is_match(p));
            let n = nonexh_rx.as_ref().map_or(false, |r| r.is_match(p));
            st.count("partition_pairs_checked");
            if (e || n) != m {
                return Err(format!(
                    "negation {}: its compiled partition (exhaustive {:?}, non-exhaustive {:?}) says {} for {:?}, the pattern itself says {}",
                    ntext, exh, nonexh, e || n, p, m
                ));
            }
            if e {
                let prefix = if p.is_empty() { String::new() } else { format!("{}/", p) };
                for d in &rels {
                    if d != p && d.starts_with(&prefix) && !npat.is_match(d) {
                        if crate::props::c09::classify_exh(&nexprs, &npat, p, d, "C03").is_some() {
                            continue;
                        }
                        return Err(format!(
                            "negation {}: {:?} matches the exhaustive partition `{}` (its tree would be discarded) but the descendant {:?} does not match the negation",
                            ntext, p, exh.clone().unwrap_or_default(), d
                        ));
                    }
                }
            }
        }
        if tree_discard || partial {
            let key = format!("{:?}|{}|{}", case.tree, under_text, ntext);
            st.nontrivial(&key, || {
                json!({"walk": under_text, "not": ntext, "tree": case.tree.nodes.iter().map(|n| n.path.clone()).collect::<Vec<_>>(),
                       "kept": negated.iter().filter_map(|i| i.rel.clone()).collect::<Vec<_>>()})
            });
        }
        Ok(())
    }
}

pub fn neg_patterns(neg: &Neg) -> Result<(Option<String>, Option<String>), BuildError> {
    let texts: Vec<String> = neg.exprs().iter().map(render_text).collect();
    match neg {
        Neg::Empty => wax::walk::verif_negation_patterns(""),
        Neg::Text(_) | Neg::Compiled(_) => wax::walk::verif_negation_patterns(texts[0].as_str()),
        _ => wax::walk::verif_negation_patterns(wax::any(texts.iter().map(|s| s.as_str()))),
    }
}
