//! C06 — Rule checking accepts exactly the well-formed expressions, context-free.
//!
//! generate: rule-agnostic nested ASTs in the documented syntax (+ bounded-exhaustive enumeration
//! of small nested shapes); oracle: reference rule checker (refrules.rs), three-valued.

use crate::ast::*;
use crate::engine::*;
use crate::gen::*;
use crate::props::common::*;
use crate::refrules::{self, Rule, RuleVerdict};
use serde::{Deserialize, Serialize};
use serde_json::json;
use wax::query::When;
use wax::Program;

pub struct C06;

#[derive(Serialize, Deserialize, Clone, Debug)]
pub struct Case {
    pub expr: Expr,
}

#[derive(Clone, Copy, PartialEq, Eq, Debug)]
enum Built {
    Ok(When),
    Parse,
    Rule,
    Compile,
    Panic,
}

fn classify_build(text: &str) -> (Built, String) {
    match build(text) {
        Ok(Ok(g)) => match guard(|| g.has_root()) {
            Ok(w) => (Built::Ok(w), String::new()),
            Err(_) => (Built::Panic, String::new()),
        },
        Ok(Err(e)) => {
            let msg = e.to_string();
            match e.verif_kind() {
                "parse" => (Built::Parse, msg),
                "rule" => (Built::Rule, msg),
                _ => (Built::Compile, msg),
            }
        },
        Err(_) => (Built::Panic, String::new()),
    }
}

/// Known-finding classification for C06 disagreements.
fn classify(e: &Expr, v: &RuleVerdict, b: Built) -> Option<&'static str> {
    match (v, b) {
        (RuleVerdict::MustFail(rules), Built::Ok(_)) => {
            if rules.iter().all(|r| *r == Rule::R5Rooting) && crate::findings::is_open("F-RULE-ROOT", "C06") {
                return Some("F-RULE-ROOT");
            }
            if rules.iter().all(|r| matches!(r, Rule::R1Boundary | Rule::R2Zom | Rule::R5Rooting))
                && crate::findings::is_open("F-RULE-NESTED", "C06")
                && nested_only(e)
            {
                return Some("F-RULE-NESTED");
            }
            None
        },
        (RuleVerdict::MustBuild, Built::Rule) => {
            if crate::findings::is_open("F-RULE-OVERREJECT", "C06") && any_tok(e, &|t, _| t.is_branch()) {
                return Some("F-RULE-OVERREJECT");
            }
            None
        },
        _ => None,
    }
}

/// every violated adjacency / rooting involves a leaf that lies inside a branch token (wax's
/// terminal checks look at leaf terminals of the immediate branch only)
fn nested_only(e: &Expr) -> bool {
    // the same expression with every branch token replaced by an inert literal has no violation
    let flat: Expr = e
        .iter()
        .map(|t| if t.is_branch() { Tok::lit("q") } else { t.clone() })
        .collect();
    matches!(refrules::verdict(&flat), RuleVerdict::MustBuild)
}

fn check_one(e: &Expr, st: &mut Stats, label: &str) -> CheckResult {
    let text = render_text(e);
    let es = strip_flags(e);
    let v = refrules::verdict(&es);
    let (b, msg) = classify_build(&text);
    st.eval(1);
    match &v {
        RuleVerdict::MustBuild => st.count("ref_must_build"),
        RuleVerdict::MustFail(_) => st.count("ref_must_fail"),
        RuleVerdict::Unspecified(_) => {
            st.count("ref_unspecified");
            if !st.frozen {
                st.unspecified += 1;
            }
        },
    }
    match b {
        Built::Panic => {
            st.panicked += 1;
            return Ok(());
        },
        Built::Compile => {
            st.count("compile_error_not_judged");
            return Ok(());
        },
        _ => {},
    }
    let bad = match (&v, b) {
        (RuleVerdict::MustBuild, Built::Parse) | (RuleVerdict::MustBuild, Built::Rule) => true,
        (RuleVerdict::MustFail(_), Built::Ok(_)) => true,
        _ => false,
    };
    if bad {
        if let Some(f) = classify(&es, &v, b) {
            st.known(f, || format!("`{}`: reference {:?}, wax {:?} {}", text, v, b, msg));
        }
        else {
            return Err(format!(
                "{}`{}`: the documented rules say {:?}, but Glob::new gives {:?} {}",
                label, text, v, b, msg
            ));
        }
    }
    if let Built::Ok(When::Sometimes) = b {
        if crate::findings::is_open("F-RULE-ROOT", "C06") && refrules::rooting_violation(&es) {
            st.known("F-RULE-ROOT", || format!("`{}` builds and has_root() == Sometimes", text));
        }
        else {
            return Err(format!("{}`{}` builds and reports has_root() == Sometimes", label, text));
        }
    }
    let nbranch = {
        let mut n = 0;
        visit(&es, 0, &mut |t, _| {
            if t.is_branch() {
                n += 1;
            }
        });
        n
    };
    if (nbranch >= 2 || max_depth(&es) >= 2) && !matches!(v, RuleVerdict::Unspecified(_)) {
        st.nontrivial(text.as_str(), || json!({"expression": text, "reference": format!("{:?}", v), "wax": format!("{:?}", b)}));
    }
    Ok(())
}

// ------------------------------------------------------------------------------------------------
// bounded-exhaustive enumeration of small nested shapes

fn leaf_tokens() -> Vec<Tok> {
    vec![
        Tok::lit("a"),
        Tok::Sep,
        Tok::Zom { lazy: false },
        Tok::Zom { lazy: true },
        Tok::Tree { lead: false, trail: false },
        Tok::Tree { lead: true, trail: false },
    ]
}

const BOUNDS: &[(usize, Option<usize>)] = &[(0, None), (1, None), (2, Some(2)), (0, Some(1)), (0, Some(0)), (2, Some(1))];

struct Enum {
    /// concats[s] = all concatenations of size s (s >= 1)
    concats: Vec<Vec<Expr>>,
    /// tokens[s] = all single tokens of size s
    tokens: Vec<Vec<Tok>>,
}

impl Enum {
    fn new(max: usize) -> Enum {
        let mut en = Enum { concats: vec![vec![]], tokens: vec![vec![]] };
        for s in 1..=max {
            // tokens of size s
            let mut ts: Vec<Tok> = Vec::new();
            if s == 1 {
                ts = leaf_tokens();
            }
            else {
                for b in &en.concats[s - 1] {
                    ts.push(Tok::Alt(vec![b.clone()]));
                    for (lo, hi) in BOUNDS {
                        ts.push(Tok::Rep { body: b.clone(), lo: *lo, hi: *hi, spell: 0 });
                    }
                }
                for i in 1..s - 1 {
                    let j = s - 1 - i;
                    for a in &en.concats[i] {
                        for b in &en.concats[j] {
                            ts.push(Tok::Alt(vec![a.clone(), b.clone()]));
                        }
                    }
                }
            }
            en.tokens.push(ts);
            // concatenations of size s
            let mut cs: Vec<Expr> = Vec::new();
            for k in 1..=s {
                for t in &en.tokens[k] {
                    if k == s {
                        cs.push(vec![t.clone()]);
                    }
                    else {
                        for rest in &en.concats[s - k] {
                            // directly adjacent zero-or-more wildcards do not lex as two tokens
                            if matches!((t, &rest[0]), (Tok::Zom { lazy: false }, Tok::Zom { lazy: false })) {
                                continue;
                            }
                            let mut e = vec![t.clone()];
                            e.extend(rest.iter().cloned());
                            cs.push(e);
                        }
                    }
                }
            }
            en.concats.push(cs);
        }
        en
    }
}

fn fix_trees(e: &Expr) -> Option<Expr> {
    // a tree wildcard without leading separator is only expressible at the start of its
    // concatenation; normalisation rewrites the others, which would duplicate shapes
    let n = normalize(e, true);
    let before: usize = count_tree_leads(e);
    let after: usize = count_tree_leads(&n);
    if before != after {
        None
    }
    else {
        Some(n)
    }
}

/// the size rule: invariant text around the 64 KiB limit, split in different ways between
/// repetitions, literals, nested repetitions, branches and variant siblings
fn gen_size_expr(t: &mut Tape) -> Expr {
    let rep = |body: Expr, n: usize| Tok::Rep { body, lo: n, hi: Some(n), spell: 0 };
    let unit: Expr = match t.below(4) {
        0 => vec![Tok::lit("a")],
        1 => vec![Tok::lit("ab")],
        2 => vec![Tok::lit("é")],
        _ => vec![Tok::lit("a"), Tok::Sep, Tok::lit("b")],
    };
    let ulen: usize = unit.iter().map(|t| match t {
        Tok::Lit { text, .. } => text.len(),
        _ => 1,
    }).sum();
    let target: usize = t.pick(&[0xFFFFusize, 0x10000, 0x10001, 0x10004, 0xFFFC, 40000, 70000, 0x20000]);
    let e: Expr = match t.below(9) {
        8 => {
            // the text written out: one literal leaf (or two, around a separator)
            if t.chance(128) {
                vec![Tok::lit(&"a".repeat(target))]
            }
            else {
                vec![Tok::lit(&"a".repeat(target / 2)), Tok::Sep, Tok::lit(&"b".repeat(target - target / 2 - 1))]
            }
        },
        0 => vec![rep(unit, target / ulen)],
        1 => {
            // a repetition just below the target plus literal text that completes it
            let n = (target - 1) / ulen;
            vec![rep(unit, n), Tok::lit(&"b".repeat(target - n * ulen))]
        },
        2 => {
            let n = (target - 1) / ulen;
            vec![Tok::lit(&"b".repeat(target - n * ulen)), rep(unit, n)]
        },
        3 => {
            // two sibling repetitions that only reach the target together
            let n1 = target / 2 / ulen;
            vec![rep(unit, n1), rep(vec![Tok::lit("b")], target - n1 * ulen)]
        },
        4 => {
            // nested repetitions
            let inner = 1 + t.below(300);
            vec![rep(vec![rep(unit, inner)], (target / (inner * ulen)).max(1))]
        },
        5 => {
            // inside an alternative
            let n = (target - 1) / ulen;
            vec![Tok::Alt(vec![vec![Tok::lit("x")], vec![rep(unit, n), Tok::lit(&"b".repeat(target - n * ulen))]])]
        },
        6 => {
            // beside a variant sibling: the whole is variant
            let n = (target - 1) / ulen;
            vec![rep(unit, n), Tok::lit(&"b".repeat(target - n * ulen)), Tok::Zom { lazy: false }]
        },
        _ => {
            // separated components
            let n = (target / 2 - 1) / ulen;
            vec![rep(unit.clone(), n), Tok::Sep, rep(unit, (target - 1 - n * ulen) / ulen), Tok::lit("b")]
        },
    };
    e
}

fn is_size_family(e: &Expr) -> bool {
    any_tok(e, &|t, _| matches!(t, Tok::Rep { lo, .. } if *lo >= 100) || matches!(t, Tok::Lit { text, .. } if text.len() >= 10000))
}

fn count_tree_leads(e: &Expr) -> usize {
    let mut n = 0;
    visit(e, 0, &mut |t, _| {
        if let Tok::Tree { lead: true, .. } = t {
            n += 1;
        }
    });
    n
}

impl Property for C06 {
    type Case = Case;
    fn id(&self) -> &'static str {
        "C06"
    }
    fn rule(&self) -> String {
        "rule-agnostic nested ASTs in the documented syntax (about half violate a rule) plus, per \
         generated E, the context variants E+`y{e,f}`, `{e,f}y`+E and `{E,q}`, plus a \
         bounded-exhaustive enumeration of all shapes up to a size bound over {a, /, *, $, **-forms, \
         {..}, {..,..}, <..:bounds>}, plus a size family (invariant text around the 64 KiB limit split between repetitions, literals, nested repetitions, branches, components and variant siblings); one evaluation = one expression judged by the reference rule \
         checker vs Glob::new; non-trivial = >= 2 branch tokens or a branch nested in a branch, and \
         a definite reference verdict; distinct by expression text"
            .into()
    }
    fn assumptions(&self) -> Vec<String> {
        vec![
            "shapes the statement does not decide (self-adjacency of a once-only body, zero-or-more adjacency that needs a repeated body, rooting behind tokens that may match nothing) are UNSPECIFIED and cannot fail".into(),
            "compile errors and panics are C05's business (counted, not judged)".into(),
            "flag groups are rendered only in the documented positions".into(),
        ]
    }
    fn budget(&self, tier: Tier) -> (u32, u32) {
        match tier {
            Tier::Quick => (6000, 8),
            Tier::Thorough => (150000, 16),
        }
    }
    fn required_counters(&self) -> Vec<&'static str> {
        vec!["ref_must_build", "ref_must_fail", "ref_unspecified", "context_variants", "enumerated", "size_family", "size_family_must_fail", "size_family_must_build"]
    }
    fn decode(&self, t: &mut Tape) -> Case {
        if t.chance(5) {
            return Case { expr: gen_size_expr(t) };
        }
        let mut cfg = GenCfg::default();
        cfg.violate = 50;
        cfg.max_depth = 4;
        cfg.weights = [26, 16, 3, 12, 12, 3, 15, 13];
        cfg.ci = 20;
        Case { expr: gen_expr(t, &cfg) }
    }
    fn directed(&self) -> Vec<Case> {
        let l = |s: &str| Tok::lit(s);
        let alt = |bs: Vec<Expr>| Tok::Alt(bs);
        vec![
            // {{/a,b}c,d}x{e,f}
            Case {
                expr: vec![
                    alt(vec![vec![alt(vec![vec![Tok::Sep, l("a")], vec![l("b")]]), l("c")], vec![l("d")]]),
                    l("x"),
                    alt(vec![vec![l("e")], vec![l("f")]]),
                ],
            },
            // {a/}x{/b}
            Case { expr: vec![alt(vec![vec![l("a"), Tok::Sep]]), l("x"), alt(vec![vec![Tok::Sep, l("b")]])] },
            // {</a:1,>,b}
            Case { expr: vec![alt(vec![vec![Tok::Rep { body: vec![Tok::Sep, l("a")], lo: 1, hi: None, spell: 0 }], vec![l("b")]])] },
        ]
    }
    fn shrink(&self, c: &Case) -> Vec<Case> {
        shrink_expr(&c.expr).into_iter().map(|e| Case { expr: normalize(&e, true) }).collect()
    }
    fn check(&self, case: &Case, st: &mut Stats) -> CheckResult {
        if is_size_family(&case.expr) {
            st.count("size_family");
            match crate::refrules::size_verdict(&strip_flags(&case.expr)) {
                Some(true) => st.count("size_family_must_fail"),
                Some(false) => st.count("size_family_must_build"),
                None => st.count("size_family_undecided"),
            }
        }
        check_one(&case.expr, st, "")?;
        // context-freeness, metamorphically: unrelated siblings must not change the verdict
        let ef = Tok::Alt(vec![vec![Tok::lit("e")], vec![Tok::lit("f")]]);
        let mut v1 = case.expr.clone();
        v1.push(Tok::lit("y"));
        v1.push(ef.clone());
        let mut v2 = vec![ef.clone(), Tok::lit("y")];
        v2.extend(case.expr.iter().cloned());
        let v3 = vec![Tok::Alt(vec![case.expr.clone(), vec![Tok::lit("q")]])];
        for (label, v) in [("[+y{e,f}] ", v1), ("[{e,f}y+] ", v2), ("[{E,q}] ", v3)] {
            let n = normalize(&v, true);
            if n != v || case.expr.is_empty() {
                continue;
            }
            st.count("context_variants");
            check_one(&v, st, label)?;
        }
        Ok(())
    }
    fn extra(&self, tier: Tier, st: &mut Stats) -> Result<(), (Case, String)> {
        let max = match tier {
            Tier::Quick => 5,
            Tier::Thorough => 6,
        };
        let en = Enum::new(max - 1);
        // top level: first token of size k, rest of size s-k; parallel over first tokens
        let mut jobs: Vec<(usize, usize)> = Vec::new(); // (total size, k)
        for s in 1..=max {
            for k in 1..=s {
                jobs.push((s, k));
            }
        }
        let results: Vec<(Stats, Option<(Case, String)>)> = std::thread::scope(|sc| {
            let nthreads = 16;
            let hs: Vec<_> = (0..nthreads)
                .map(|ti| {
                    let en = &en;
                    let jobs = &jobs;
                    sc.spawn(move || {
                        let mut st = Stats::default();
                        let mut counter = 0usize;
                        for (s, k) in jobs {
                            let toks: Vec<Tok> = if *k == *s && *s == max {
                                // tokens of the maximal size are built on the fly
                                let mut ts = Vec::new();
                                if *s == 1 {
                                    ts = leaf_tokens();
                                }
                                else {
                                    for b in &en.concats[s - 1] {
                                        ts.push(Tok::Alt(vec![b.clone()]));
                                        for (lo, hi) in BOUNDS {
                                            ts.push(Tok::Rep { body: b.clone(), lo: *lo, hi: *hi, spell: 0 });
                                        }
                                    }
                                    for i in 1..s - 1 {
                                        let j = s - 1 - i;
                                        for a in &en.concats[i] {
                                            for b in &en.concats[j] {
                                                ts.push(Tok::Alt(vec![a.clone(), b.clone()]));
                                            }
                                        }
                                    }
                                }
                                ts
                            }
                            else {
                                en.tokens[*k].clone()
                            };
                            for t in &toks {
                                let rests: Vec<Expr> =
                                    if *k == *s { vec![vec![]] } else { en.concats[s - k].clone() };
                                for rest in &rests {
                                    counter += 1;
                                    if counter % nthreads != ti {
                                        continue;
                                    }
                                    if !rest.is_empty() && matches!((t, &rest[0]), (Tok::Zom { lazy: false }, Tok::Zom { lazy: false })) {
                                        continue;
                                    }
                                    let mut e = vec![t.clone()];
                                    e.extend(rest.iter().cloned());
                                    let e = match fix_trees(&e) {
                                        Some(e) => e,
                                        None => continue,
                                    };
                                    st.count("enumerated");
                                    if let Err(m) = check_one(&e, &mut st, "[enumerated] ") {
                                        return (st, Some((Case { expr: e }, m)));
                                    }
                                }
                            }
                        }
                        (st, None)
                    })
                })
                .collect();
            hs.into_iter().map(|h| h.join().unwrap()).collect()
        });
        let mut fail = None;
        for (s, f) in results {
            st.merge(s);
            if fail.is_none() {
                fail = f;
            }
        }
        st.count("enumeration_size_bound");
        st.add("enumeration_size_bound", max as u64 - 1);
        match fail {
            Some(f) => Err(f),
            None => Ok(()),
        }
    }
}
