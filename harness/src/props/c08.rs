//! C08 — Partitioning preserves meaning: prefix joined with postfix is the glob.

use crate::ast::*;
use crate::engine::*;
use crate::gen::*;
use crate::props::common::*;
use serde::{Deserialize, Serialize};
use serde_json::json;
use wax::query::{TextVariance, When};
use wax::{Glob, Program};

pub struct C08;

#[derive(Serialize, Deserialize, Clone, Debug)]
pub struct Case {
    pub expr: Expr,
    pub paths: Vec<String>,
}

fn l(s: &str) -> Tok {
    Tok::lit(s)
}

/// an alternation (or repetition) of invariant branches that are equal, a leading run of one
/// another (by whole components or by characters), or different: only the first kind is invariant
/// text, the others must stay out of the prefix (`{a,a/b}/*`, `{a/b,a}`, `{ab,a}/`, `<a/b:2>*`)
fn gen_inv_branches(t: &mut Tape) -> Expr {
    fn comps(t: &mut Tape) -> Vec<String> {
        let n = 1 + t.below(3);
        (0..n).map(|_| t.pick(&["a", "b", "ab", "é"]).to_string()).collect()
    }
    fn spell(cs: &[String]) -> Expr {
        let mut e = Vec::new();
        for (i, c) in cs.iter().enumerate() {
            if i > 0 {
                e.push(Tok::Sep);
            }
            e.push(Tok::lit(c));
        }
        e
    }
    let a = comps(t);
    let mut b = a.clone();
    match t.below(6) {
        0 => {},
        1 => b.push(t.pick(&["b", "c"]).to_string()),
        2 => {
            if b.len() > 1 {
                b.pop();
            }
            else {
                b.push("b".into());
            }
        },
        3 => {
            let k = b.len() - 1;
            b[k].push('b');
        },
        4 => b = comps(t),
        _ => {
            let k = b.len() - 1;
            b[k] = b[k].to_uppercase();
        },
    }
    let mut bs = vec![spell(&a), spell(&b)];
    if t.chance(60) {
        bs.push(spell(&a));
    }
    if t.chance(128) {
        bs.swap(0, 1);
    }
    let mut e = match t.below(4) {
        0 => vec![Tok::Rep { body: spell(&a), lo: 2, hi: Some(2), spell: 1 }],
        1 => vec![Tok::Alt(vec![spell(&a)])],
        _ => vec![Tok::Alt(bs)],
    };
    if t.chance(60) {
        e.insert(0, Tok::Sep);
        e.insert(0, l("x"));
    }
    if t.chance(170) {
        e.push(Tok::Sep);
    }
    e
}

/// invariant text spelled through *nested* invariant branches with separators inside the inner
/// ones (`{a{b/c}}/`, `x/{a<b/:2>c}`, `<a{b/c}:2>/`): the folded text of an inner branch has
/// several fragments, so joining it to what precedes it is where fragment order can go wrong
fn gen_inv_nested(t: &mut Tape, depth: usize) -> Expr {
    // every expression built here begins and ends with a non-separator
    let mut e: Expr = Vec::new();
    let n = 1 + t.below(3);
    for i in 0..n {
        if i > 0 && t.chance(110) {
            e.push(Tok::Sep);
        }
        let k = if depth == 0 { 0 } else { t.below(5) };
        match k {
            0 => e.push(Tok::lit(t.pick(&["a", "b", "c", "ab", "é"]))),
            1 | 2 => {
                let inner = gen_inv_nested(t, depth - 1);
                let mut bs = vec![inner.clone()];
                if t.chance(60) {
                    bs.push(inner);
                }
                e.push(Tok::Alt(bs));
            },
            3 => {
                let mut inner = gen_inv_nested(t, depth - 1);
                // `<b/:2>` — a body that ends with a separator needs a non-boundary neighbour
                if t.chance(100) {
                    inner.push(Tok::Sep);
                    e.push(Tok::Rep { body: inner, lo: 2, hi: Some(2), spell: 1 });
                    e.push(Tok::lit(t.pick(&["a", "c"])));
                }
                else {
                    let k = 1 + t.below(2);
                    e.push(Tok::Rep { body: inner, lo: k, hi: Some(k), spell: 1 });
                }
            },
            _ => {
                let inner = gen_inv_nested(t, depth - 1);
                e.push(Tok::Alt(vec![inner]));
            },
        }
    }
    e
}

fn gen_prefix(t: &mut Tape) -> Expr {
    let li = |s: &str| Tok::Lit { text: s.into(), ci: true };
    if t.chance(30) {
        let mut e = gen_inv_nested(t, 2);
        if t.chance(40) {
            e.insert(0, Tok::Sep);
        }
        if t.chance(200) {
            e.push(Tok::Sep);
        }
        return e;
    }
    if t.chance(50) {
        return gen_inv_branches(t);
    }
    match t.below(18) {
        0 => vec![],
        1 => vec![l("a"), Tok::Sep],
        2 => vec![l("a"), Tok::Sep, l("b"), Tok::Sep],
        3 => vec![Tok::Sep],
        4 => vec![Tok::Sep, l("a"), Tok::Sep],
        5 => vec![l(".."), Tok::Sep],
        6 => vec![l("."), Tok::Sep, l("a"), Tok::Sep],
        7 => vec![Tok::Alt(vec![vec![l("a")]]), Tok::Sep],
        8 => vec![Tok::Alt(vec![vec![l("a"), Tok::Sep, l("b")]]), Tok::Sep],
        9 => vec![Tok::Rep { body: vec![l("a"), Tok::Sep], lo: 2, hi: Some(2), spell: 1 }],
        10 => vec![Tok::Rep { body: vec![Tok::Sep, l("a")], lo: 2, hi: Some(2), spell: 1 }, Tok::Sep],
        11 => vec![li("1"), Tok::Sep],
        12 => vec![li("a"), Tok::Sep],
        13 => vec![Tok::Class { neg: false, items: vec![Item::Ch('a')] }, Tok::Sep],
        14 => vec![Tok::Class { neg: false, items: vec![Item::Range('a', 'a')] }, Tok::Sep],
        15 => vec![l("a"), Tok::Sep, li("1"), Tok::Sep, l("é"), Tok::Sep],
        16 => vec![l("a"), Tok::Tree { lead: true, trail: true }],
        _ => vec![l("ab"), Tok::Sep, Tok::Flag(vec![true]), l("c"), Tok::Sep],
    }
}

fn gen_variant(t: &mut Tape) -> Expr {
    match t.below(14) {
        0 => vec![],
        1 => vec![Tok::Zom { lazy: false }],
        2 => vec![l("a"), Tok::Zom { lazy: false }],
        3 => vec![Tok::Tree { lead: false, trail: false }],
        4 => vec![Tok::Tree { lead: false, trail: true }, l("b")],
        5 => vec![Tok::Rep { body: vec![Tok::Sep, l("a")], lo: 1, hi: None, spell: 0 }],
        6 => vec![Tok::Rep { body: vec![Tok::Sep, l("a")], lo: 2, hi: Some(2), spell: 1 }, Tok::Zom { lazy: false }],
        7 => vec![Tok::Alt(vec![vec![l("a")], vec![l("b"), Tok::Sep, l("c")]])],
        8 => vec![Tok::One, Tok::Sep, l("x")],
        9 => vec![Tok::Lit { text: "a".into(), ci: true }, Tok::Zom { lazy: false }],
        10 => vec![Tok::Zom { lazy: false }, Tok::Sep, l("b"), Tok::Sep, Tok::One],
        11 => vec![Tok::Class { neg: true, items: vec![Item::Ch('a')] }, l("b")],
        12 => vec![Tok::Alt(vec![vec![Tok::Zom { lazy: false }, l(".rs")]]), Tok::Sep, Tok::Zom { lazy: true }, l("x")],
        _ => {
            let mut c = GenCfg::default();
            c.max_toks = 4;
            c.allow_rooted = false;
            gen_expr(t, &c)
        },
    }
}

/// component-wise strip without any path normalisation; None when `pre` is not a leading run of
/// the components of `p`
pub fn strip_components(p: &str, pre: &str) -> Option<String> {
    if pre.is_empty() {
        return Some(p.to_string());
    }
    let pre_rooted = pre.starts_with('/');
    let p_rooted = p.starts_with('/');
    if pre_rooted != p_rooted {
        return None;
    }
    let pc: Vec<&str> = pre.split('/').filter(|c| !c.is_empty()).collect();
    let cc: Vec<&str> = p.split('/').filter(|c| !c.is_empty()).collect();
    if cc.len() < pc.len() || cc[..pc.len()] != pc[..] {
        return None;
    }
    Some(cc[pc.len()..].join("/"))
}

fn observe(g: &Glob<'_>, paths: &[String]) -> Vec<bool> {
    paths.iter().map(|p| g.is_match(p.as_str())).collect()
}

impl Property for C08 {
    type Case = Case;
    fn id(&self) -> &'static str {
        "C08"
    }
    fn rule(&self) -> String {
        "globs built as invariant-prefix part ++ variant part (prefixes: literal, rooted, `..`, `.`, \
         invariant alternation / repetition, case-flagged caseless and cased literals, single \
         character classes; variants: wildcards, tree wildcards, rooted repetitions, alternations, \
         generated ASTs) and wholly generated ASTs x canonical path pools (witnesses of the glob \
         and prefix-joined witnesses of the postfix); one evaluation = one (glob, path) for clause \
         1 plus one per structural clause; non-trivial = non-empty prefix with a postfix, or a \
         rooted glob, and the pool has a match and a non-match; distinct by (text, path)"
            .into()
    }
    fn assumptions(&self) -> Vec<String> {
        vec![
            "the prefix is compared component-wise as text (no `.`/`..` normalisation, unlike std::path::Path::strip_prefix)".into(),
            "canonical paths only for clause 1".into(),
        ]
    }
    fn budget(&self, tier: Tier) -> (u32, u32) {
        match tier {
            Tier::Quick => (3000, 8),
            Tier::Thorough => (100000, 16),
        }
    }
    fn required_counters(&self) -> Vec<&'static str> {
        vec!["built", "nonempty_prefix_with_postfix", "wholly_invariant", "rooted", "empty_prefix", "postfix_rebuilt", "prefix_via_branch", "prefix_via_nested_separator_branch"]
    }
    fn decode(&self, t: &mut Tape) -> Case {
        let expr = if t.chance(60) {
            gen_expr(t, &GenCfg::default())
        }
        else {
            let mut e = gen_prefix(t);
            let v = gen_variant(t);
            // avoid adjacent boundaries at the junction
            if ends_expr(&e) & K_B != 0 && starts_expr(&v) & K_B != 0 {
                e.pop();
            }
            e.extend(v);
            merge_lits(&normalize(&e, true))
        };
        let text = render_text(&expr);
        let pat = pattern_of(&text);
        let mut paths = path_pool(t, &expr, pat.as_deref(), 2);
        // prefix-joined witnesses of the postfix
        if let Ok(Ok(g)) = build(&text) {
            if let Ok((pre, Some(post))) = guard(|| g.clone().partition()) {
                if let Some(pre) = pre.to_str() {
                    let pp = post.verif_program_pattern().to_string();
                    for _ in 0..4 {
                        if let Some(w) = crate::rxgen::sample(&pp, t) {
                            let joined = if pre.is_empty() {
                                w
                            }
                            else if pre.ends_with('/') {
                                format!("{}{}", pre, w)
                            }
                            else {
                                format!("{}/{}", pre, w)
                            };
                            paths.push(joined);
                        }
                    }
                }
            }
        }
        let canon: Vec<String> = paths.iter().map(|p| canonicalize(p)).collect();
        paths.extend(canon);
        paths.sort();
        paths.dedup();
        Case { expr, paths }
    }
    fn directed(&self) -> Vec<Case> {
        vec![
            Case {
                expr: vec![Tok::Rep { body: vec![Tok::Sep, l("a")], lo: 1, hi: None, spell: 0 }],
                paths: vec!["/a".into(), "/a/a".into(), "a".into()],
            },
            Case {
                expr: vec![Tok::Lit { text: "1".into(), ci: true }, Tok::Sep, Tok::Lit { text: "a".into(), ci: true }, Tok::Zom { lazy: false }],
                paths: vec!["1/a".into(), "1/A".into(), "1/Ab".into()],
            },
        ]
    }
    fn shrink(&self, c: &Case) -> Vec<Case> {
        let mut out = Vec::new();
        if c.paths.len() > 1 {
            for p in &c.paths {
                out.push(Case { expr: c.expr.clone(), paths: vec![p.clone()] });
            }
        }
        for e in shrink_expr(&c.expr) {
            out.push(Case { expr: normalize(&e, true), paths: c.paths.clone() });
        }
        out
    }
    fn check(&self, case: &Case, st: &mut Stats) -> CheckResult {
        let text = render_text(&case.expr);
        let g = match build_either(&text) {
            Ok(Ok(g)) => g,
            Ok(Err(_)) => {
                st.count("not_built");
                return Ok(());
            },
            Err(_) => {
                st.panicked += 1;
                return Ok(());
            },
        };
        st.count("built");
        if any_tok(&case.expr, &|t, _| match t {
            Tok::Class { items, .. } => items.iter().any(|i| match i {
                Item::Ch(c) => *c == '/',
                Item::Range(a, b) => *a <= '/' && '/' <= *b,
            }),
            _ => false,
        }) {
            // a class listing a separator matches nothing there although its text is invariant
            // (README: "such patterns should be avoided"; C11 states the exception)
            st.count("skipped_separator_class");
            return Ok(());
        }
        let part = guard(|| {
            let (pre, post) = g.clone().partition();
            let (pe, ge) = g.clone().partition_or_empty();
            let (pt, gt) = g.clone().partition_or_tree();
            (pre, post, pe, ge.to_string(), ge.is_empty(), pt, gt.to_string())
        });
        let (pre, post, pe, ge, ge_empty, pt, gt) = match part {
            Ok(x) => x,
            Err(m) => {
                // partition itself panicking is C05's business, but note it
                st.panicked += 1;
                st.count("partition_panicked");
                let _ = m;
                return Ok(());
            },
        };
        let pre_text = match pre.to_str() {
            Some(s) => s.to_string(),
            None => return Err(format!("`{}`: prefix is not UTF-8", text)),
        };
        let es = strip_flags(&case.expr);
        let rooted = starts_rooting_expr(&es);
        if rooted {
            st.count("rooted");
        }
        if pre_text.is_empty() {
            st.count("empty_prefix");
        }
        if post.is_none() {
            st.count("wholly_invariant");
        }
        if !pre_text.is_empty() && post.is_some() {
            st.count("nonempty_prefix_with_postfix");
            if matches!(es.first(), Some(t) if t.is_branch()) {
                st.count("prefix_via_branch");
            }
            fn holds_sep_branch(e: &Expr) -> bool {
                e.iter().any(|t| match t {
                    Tok::Alt(bs) => bs.iter().any(|b| b.contains(&Tok::Sep) || holds_sep_branch(b)),
                    Tok::Rep { body, .. } => body.contains(&Tok::Sep) || holds_sep_branch(body),
                    _ => false,
                })
            }
            if es.iter().take(3).any(|t| match t {
                Tok::Alt(bs) => bs.iter().any(|b| b.len() > 1 && holds_sep_branch(b)),
                Tok::Rep { body, .. } => body.len() > 1 && holds_sep_branch(body),
                _ => false,
            }) {
                st.count("prefix_via_nested_separator_branch");
            }
        }
        // (6)
        st.eval(1);
        if pe != pre || pt != pre {
            return Err(format!("`{}`: partition_or_empty / partition_or_tree give a different prefix", text));
        }
        match &post {
            Some(p) => {
                if ge != p.to_string() || gt != p.to_string() {
                    return Err(format!("`{}`: partition_or_* postfix differs from partition's", text));
                }
            },
            None => {
                if !ge_empty || gt != "**" {
                    return Err(format!("`{}`: partition_or_empty is `{}`, partition_or_tree is `{}` for a glob without postfix", text, ge, gt));
                }
            },
        }
        let known_reproot = crate::findings::is_open("F-PART-REPROOT", "C08") && reproot_trigger(&es);
        let known_flags = crate::findings::is_open("F-PART-FLAGS", "C08") && flags_trigger(&case.expr, &text, post.as_ref().map(|p| p.to_string()).as_deref());
        // (2)
        if let Some(p) = &post {
            st.eval(1);
            if p.has_root() != When::Never {
                if known_reproot {
                    st.known("F-PART-REPROOT", || format!("`{}` → ({:?}, `{}`): postfix has_root() = {:?}", text, pre_text, p, p.has_root()));
                }
                else {
                    return Err(format!("`{}` → prefix {:?}, postfix `{}` with has_root() == {:?}", text, pre_text, p, p.has_root()));
                }
            }
        }
        // (3)
        st.eval(1);
        match build(&wax::escape(&pre_text)) {
            Ok(Ok(pg)) => match pg.text() {
                TextVariance::Invariant(t) if t.as_ref() == pre_text => {},
                other => {
                    return Err(format!("`{}`: prefix {:?} is not pattern-free (escaped and rebuilt its text is {:?})", text, pre_text, other));
                },
            },
            _ => {
                return Err(format!("`{}`: prefix {:?} does not rebuild as an escaped literal", text, pre_text));
            },
        }
        // (4) and (5)
        let mut rebuilt: Option<Glob<'static>> = None;
        if let Some(p) = &post {
            st.eval(2);
            let shown = p.to_string();
            let (pre2, post2) = p.clone().partition();
            if !known_reproot && (!pre2.as_os_str().is_empty() || post2.as_ref().map(|q| q.to_string()) != Some(shown.clone())) {
                return Err(format!(
                    "`{}`: partitioning the postfix `{}` again gives ({:?}, {:?})",
                    text, shown, pre2, post2.map(|q| q.to_string())
                ));
            }
            if !text.ends_with(&shown) && !known_flags {
                return Err(format!("`{}`: postfix displays as `{}`, which is not a suffix of the expression", text, shown));
            }
            match build(&shown) {
                Ok(Ok(r)) => {
                    st.count("postfix_rebuilt");
                    // capture spans relative to the suffix
                    let a: Vec<(usize, (usize, usize))> = p.captures().map(|c| (c.index(), c.span())).collect();
                    let b: Vec<(usize, (usize, usize))> = r.captures().map(|c| (c.index(), c.span())).collect();
                    if a != b && known_flags {
                        st.known("F-PART-FLAGS", || format!("`{}`: postfix `{}` capture spans differ from the rebuilt glob's", text, shown));
                    }
                    else if a != b {
                        return Err(format!("`{}`: postfix `{}` capture spans {:?} differ from the rebuilt glob's {:?}", text, shown, a, b));
                    }
                    let orig: Vec<(usize, (usize, usize))> = g.captures().map(|c| (c.index(), c.span())).collect();
                    if a.len() <= orig.len() {
                        let off = orig.len() - a.len();
                        for (k, (_, (s, n))) in a.iter().enumerate() {
                            let (_, (os, on)) = orig[off + k];
                            let ps = shown.get(*s..*s + *n);
                            let ot = text.get(os..os + on);
                            let same = match (ps, ot) {
                                (Some(x), Some(y)) => x == y || (y.starts_with('/') && &y[1..] == x),
                                _ => false,
                            };
                            if !same && known_flags {
                                st.known("F-PART-FLAGS", || format!("`{}`: capture {} of the postfix `{}`", text, k + 1, shown));
                            }
                            else if !same {
                                return Err(format!(
                                    "`{}`: capture {} of the postfix `{}` spans {:?} = {:?}, the original span gives {:?}",
                                    text, k + 1, shown, (s, n), ps, ot
                                ));
                            }
                        }
                    }
                    rebuilt = Some(r);
                },
                Ok(Err(e)) => {
                    if known_flags {
                        st.known("F-PART-FLAGS", || format!("`{}`: postfix displays as `{}`, which does not rebuild", text, shown));
                    }
                    else {
                        return Err(format!("`{}`: displayed postfix `{}` does not rebuild: {}", text, shown, e));
                    }
                },
                Err(_) => {
                    st.panicked += 1;
                },
            }
        }
        // (1) on canonical paths, and rebuilt-postfix equivalence on the remainders
        let ms = observe(&g, &case.paths);
        let (mut acc, mut rej) = (false, false);
        for m in &ms {
            if *m {
                acc = true;
            }
            else {
                rej = true;
            }
        }
        for (p, m) in case.paths.iter().zip(ms.iter()) {
            if !is_canonical(p) {
                continue;
            }
            st.eval(1);
            let r = strip_components(p, &pre_text);
            let rhs = match (&r, &post) {
                (None, _) => false,
                (Some(r), None) => r.is_empty(),
                (Some(r), Some(q)) => q.is_match(r.as_str()),
            };
            if *m != rhs {
                if !*m && rhs && g.is_match(format!("{}/", p).as_str()) {
                    // the glob spells a trailing separator (`a/`): it matches no canonical path;
                    // the documentation is silent about bare trailing separators
                    st.count("trailing_separator_unspecified");
                    if !st.frozen {
                        st.unspecified += 1;
                    }
                    continue;
                }
                if known_reproot {
                    st.known("F-PART-REPROOT", || format!("`{}` on {:?}", text, p));
                    continue;
                }
                // F-ROOT-TREE (C01's finding) shows through: the glob accepts a path the
                // documentation rejects, the unrooted postfix rightly does not
                if *m
                    && crate::findings::is_open("F-ROOT-TREE", "C08")
                    && matches!(es.first(), Some(Tok::Tree { lead: true, .. }))
                    && es.len() > 1
                    && crate::refmatch::verdict(&es, p) != crate::refmatch::Verdict::MustAccept
                    && crate::refmatch::lenient_match_with(&es, p, crate::refmatch::Quirks { root_tree: true })
                {
                    st.known("F-ROOT-TREE", || format!("`{}` accepts {:?}", text, p));
                    continue;
                }
                return Err(format!(
                    "`{}` → prefix {:?}, postfix {:?}: glob.is_match({:?}) = {} but prefix-strip + postfix match = {} (remainder {:?})",
                    text, pre_text, post.as_ref().map(|q| q.to_string()), p, m, rhs, r
                ));
            }
            if *m && !p.starts_with(pre_text.trim_end_matches('/')) && pre_text != "/" {
                return Err(format!("`{}`: matched path {:?} does not start with the prefix text {:?}", text, p, pre_text));
            }
            if let (Some(r), Some(q), Some(rb)) = (&r, &post, &rebuilt) {
                let a = q.is_match(r.as_str());
                let b = rb.is_match(r.as_str());
                if a != b {
                    if known_flags {
                        st.known("F-PART-FLAGS", || format!("`{}`: postfix `{}` on {:?}: {} vs rebuilt {}", text, q, r, a, b));
                        continue;
                    }
                    return Err(format!(
                        "`{}`: postfix `{}` matches {:?} = {}, but the glob rebuilt from its displayed text says {}",
                        text, q, r, a, b
                    ));
                }
            }
            if ((!pre_text.is_empty() && post.is_some()) || rooted) && acc && rej {
                st.nontrivial(&(text.as_str(), p.as_str()), || {
                    json!({"glob": text, "prefix": pre_text, "postfix": post.as_ref().map(|q| q.to_string()), "path": p, "matches": m})
                });
            }
        }
        Ok(())
    }
}

/// F-PART-REPROOT trigger: the first top-level token is a repetition whose body begins with a
/// rooting leaf.
pub fn reproot_trigger(e: &Expr) -> bool {
    matches!(e.first(), Some(Tok::Rep { body, .. }) if starts_rooting_expr(body))
}

/// F-PART-FLAGS trigger: the text popped with the prefix contains a flag group and a literal of
/// the postfix has an effective flag that differs from the default.
pub fn flags_trigger(e: &Expr, text: &str, postfix: Option<&str>) -> bool {
    let postfix = match postfix {
        Some(p) => p,
        None => return false,
    };
    let cut = text.len().saturating_sub(postfix.len());
    let mut end = (cut + 2).min(text.len());
    while !text.is_char_boundary(end) {
        end += 1;
    }
    let _ = e;
    text[..end].contains("(?")
}
