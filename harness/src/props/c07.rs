//! C07 — Branches compose: alternation is union, repetition is iteration, `any` is union.
//!
//! Pure metamorphic relation between wax outputs (no reference matcher involved): families of
//! expressions related by branch substitution, unrolling, wrapping and the `any` combinator must
//! agree on every path.  Families with a member that does not build are discarded (counted).

use crate::ast::*;
use crate::astops::*;
use crate::engine::*;
use crate::gen::*;
use crate::props::common::*;
use serde::{Deserialize, Serialize};
use serde_json::json;
use wax::{Glob, Program};

pub struct C07;

#[derive(Serialize, Deserialize, Clone, Debug, PartialEq)]
pub enum Fam {
    /// substitute each branch of the alternation at `loc`
    Subst { loc: Loc },
    /// write the body of the repetition at `loc` out k times
    Unroll { loc: Loc },
    /// wrap `len` tokens starting at `loc`; style 0 `{t}`, 1 `<t:1>`, 2 `<t:1,1>`, 3 `{{t}}`
    Wrap { loc: Loc, len: usize, style: u8 },
    /// `any` over expr + others
    Any { others: Vec<Expr> },
}

#[derive(Serialize, Deserialize, Clone, Debug)]
pub struct Case {
    pub expr: Expr,
    pub fam: Fam,
    pub paths: Vec<String>,
}

fn wrap(toks: &[Tok], style: u8) -> Tok {
    match style {
        0 => Tok::Alt(vec![toks.to_vec()]),
        1 => Tok::Rep { body: toks.to_vec(), lo: 1, hi: Some(1), spell: 1 },
        2 => Tok::Rep { body: toks.to_vec(), lo: 1, hi: Some(1), spell: 0 },
        _ => Tok::Alt(vec![vec![Tok::Alt(vec![toks.to_vec()])]]),
    }
}

/// members of the family other than `expr` itself, as (label, expr)
pub fn members(expr: &Expr, fam: &Fam, max_unroll: usize) -> Option<Vec<(String, Expr)>> {
    let mut out = Vec::new();
    match fam {
        Fam::Subst { loc } => match get_at(expr, loc)? {
            Tok::Alt(bs) => {
                for (i, b) in bs.iter().enumerate() {
                    out.push((format!("branch{}", i), splice_at(expr, loc, 1, b)?));
                }
            },
            _ => return None,
        },
        Fam::Unroll { loc } => match get_at(expr, loc)? {
            Tok::Rep { body, lo, hi, .. } => {
                let top = hi.unwrap_or(usize::MAX).min(lo + max_unroll);
                for k in *lo..=top {
                    let mut toks = Vec::new();
                    for _ in 0..k {
                        toks.extend(body.iter().cloned());
                    }
                    out.push((format!("x{}", k), splice_at(expr, loc, 1, &toks)?));
                }
            },
            _ => return None,
        },
        Fam::Wrap { loc, len, style } => {
            let (conc, i) = concat_of(expr, loc)?;
            if *len == 0 || i + len > conc.len() {
                return None;
            }
            let w = wrap(&conc[i..i + len], *style);
            out.push((format!("wrap{}", style), splice_at(expr, loc, *len, &[w])?));
        },
        Fam::Any { .. } => {},
    }
    Some(out)
}

impl Property for C07 {
    type Case = Case;
    fn id(&self) -> &'static str {
        "C07"
    }
    fn rule(&self) -> String {
        "families derived from a generated glob AST: substitution of each branch of a marked \
         alternation, unrolling of a marked repetition (k = lo..min(hi, lo+|path|)), wrapping of a \
         marked token range in {..} / <..:1> / <..:1,1> / {{..}}, and any([..]) from text / \
         compiled / nested / Result-wrapped patterns; every member must build; one evaluation = \
         one (family, path); non-trivial = the marked branch is nested or not first in its \
         concatenation (or the family is an `any` of >= 2 patterns) and the path pool contains a \
         match and a non-match of the base expression; distinct by (family rendering, path)"
            .into()
    }
    fn assumptions(&self) -> Vec<String> {
        vec![
            "families in which some member does not build are discarded (the property only speaks about expressions that all build)".into(),
            "a member whose spliced text would not parse back to the same structure (e.g. a tree wildcard losing its delimiter) is not a member".into(),
        ]
    }
    fn budget(&self, tier: Tier) -> (u32, u32) {
        match tier {
            Tier::Quick => (3000, 8),
            Tier::Thorough => (100000, 16),
        }
    }
    fn required_counters(&self) -> Vec<&'static str> {
        vec!["family_subst", "family_unroll", "family_wrap", "family_any", "marked_nested", "tree_in_marked"]
    }
    fn decode(&self, t: &mut Tape) -> Case {
        let mut cfg = GenCfg::default();
        cfg.weights = [28, 12, 5, 9, 10, 6, 16, 14];
        let expr = gen_expr(t, &cfg);
        let kind = t.weighted(&[30, 25, 30, 15]);
        let fam = match kind {
            0 => {
                let locs = locations(&expr, &|t| matches!(t, Tok::Alt(_)));
                if locs.is_empty() {
                    None
                }
                else {
                    Some(Fam::Subst { loc: t.pick(&locs) })
                }
            },
            1 => {
                let locs = locations(&expr, &|t| matches!(t, Tok::Rep { .. }));
                if locs.is_empty() {
                    None
                }
                else {
                    Some(Fam::Unroll { loc: t.pick(&locs) })
                }
            },
            2 => {
                let locs = locations(&expr, &|t| !t.is_flag());
                if locs.is_empty() {
                    None
                }
                else {
                    let loc = t.pick(&locs);
                    let (conc, i) = concat_of(&expr, &loc).unwrap();
                    let maxlen = conc.len() - i;
                    let len = 1 + t.below(maxlen.min(3));
                    Some(Fam::Wrap { loc, len, style: t.below(4) as u8 })
                }
            },
            _ => None,
        };
        let fam = fam.unwrap_or_else(|| {
            let n = t.weighted(&[20, 35, 20, 15, 10]);
            let mut c2 = GenCfg::default();
            c2.max_toks = 4;
            Fam::Any { others: (0..n).map(|_| gen_expr(t, &c2)).collect() }
        });
        let mut paths = Vec::new();
        let mut all = vec![expr.clone()];
        if let Some(ms) = members(&expr, &fam, 3) {
            all.extend(ms.into_iter().map(|m| m.1));
        }
        if let Fam::Any { others } = &fam {
            all.extend(others.iter().cloned());
        }
        for m in all.iter().take(7) {
            let text = render_text(m);
            let pat = pattern_of(&text);
            paths.extend(path_pool(t, m, pat.as_deref(), 1));
        }
        paths.sort();
        paths.dedup();
        Case { expr, fam, paths }
    }
    fn directed(&self) -> Vec<Case> {
        // `{.A{**/A}}ba` vs `.A{**/A}ba`
        let inner = vec![
            Tok::lit(".A"),
            Tok::Alt(vec![vec![Tok::Tree { lead: false, trail: true }, Tok::lit("A")]]),
        ];
        vec![Case {
            expr: vec![inner[0].clone(), inner[1].clone(), Tok::lit("ba")],
            fam: Fam::Wrap { loc: vec![Step::Tok(0)], len: 2, style: 0 },
            paths: vec![".AAba".into(), ".A/Aba".into(), ".Ax/Aba".into()],
        }]
    }
    fn shrink(&self, c: &Case) -> Vec<Case> {
        let mut out = Vec::new();
        if c.paths.len() > 1 {
            for p in &c.paths {
                out.push(Case { expr: c.expr.clone(), fam: c.fam.clone(), paths: vec![p.clone()] });
            }
        }
        if let Fam::Any { others } = &c.fam {
            for i in 0..others.len() {
                let mut o = others.clone();
                o.remove(i);
                out.push(Case { expr: c.expr.clone(), fam: Fam::Any { others: o }, paths: c.paths.clone() });
            }
            for e in shrink_expr(&c.expr) {
                out.push(Case { expr: normalize(&e, true), fam: c.fam.clone(), paths: c.paths.clone() });
            }
        }
        out
    }
    fn check(&self, case: &Case, st: &mut Stats) -> CheckResult {
        let base_text = render_text(&case.expr);
        let base = match build(&base_text) {
            Ok(Ok(g)) => g,
            Ok(Err(_)) => {
                st.count("base_not_built");
                return Ok(());
            },
            Err(_) => {
                st.panicked += 1;
                return Ok(());
            },
        };
        let maxlen = case.paths.iter().map(|p| p.chars().count()).max().unwrap_or(0);
        let short_limit = 10usize;
        let mut marked_nested = false;
        let mut tree_in_marked = false;
        let family_text;
        let mut complete = true;
        // (label, glob) of members
        let mut globs: Vec<(String, String, Glob<'static>)> = Vec::new();
        match &case.fam {
            Fam::Any { others } => {
                st.count("family_any");
                let mut texts = vec![base_text.clone()];
                for o in others {
                    texts.push(render_text(o));
                }
                let mut gs = Vec::new();
                for tx in &texts {
                    match build(tx) {
                        Ok(Ok(g)) => gs.push(g),
                        Ok(Err(_)) => {
                            st.count("family_discarded_member_not_built");
                            return Ok(());
                        },
                        Err(_) => {
                            st.panicked += 1;
                            return Ok(());
                        },
                    }
                }
                family_text = format!("any({:?})", texts);
                let routes = guard(|| {
                    let a_text = wax::any(texts.iter().map(|s| s.as_str()));
                    let a_glob = wax::any(gs.iter().cloned());
                    let a_res = wax::any(texts.iter().map(|s| Glob::new(s.as_str())));
                    let a_nested = {
                        let first = wax::any([gs[0].clone()]);
                        if gs.len() > 1 {
                            let rest = wax::any(gs[1..].iter().cloned());
                            wax::any([first, rest])
                        }
                        else {
                            wax::any([first])
                        }
                    };
                    (a_text, a_glob, a_res, a_nested)
                });
                let (a_text, a_glob, a_res, a_nested) = match routes {
                    Ok(r) => r,
                    Err(_) => {
                        st.panicked += 1;
                        return Ok(());
                    },
                };
                let anys = [("text", a_text), ("compiled", a_glob), ("result", a_res), ("nested", a_nested)];
                for (label, a) in &anys {
                    if a.is_err() {
                        // all patterns build individually: only an oversized program may fail
                        return Err(format!(
                            "any({:?}) via route `{}` fails to build although every pattern builds: {}",
                            texts,
                            label,
                            a.as_ref().err().unwrap()
                        ));
                    }
                }
                for p in &case.paths {
                    st.eval(1);
                    let expected = gs.iter().any(|g| g.is_match(p.as_str()));
                    for (label, a) in &anys {
                        let m = a.as_ref().unwrap().is_match(p.as_str());
                        if m != expected {
                            return Err(format!(
                                "any({:?}) built from `{}`: is_match({:?}) = {} but the union of its patterns says {}",
                                texts, label, p, m, expected
                            ));
                        }
                    }
                    if gs.len() >= 2 {
                        st.nontrivial(&(family_text.as_str(), p.as_str()), || {
                            json!({"family": family_text, "path": p, "union": expected})
                        });
                    }
                }
                return Ok(());
            },
            fam => {
                let ms = match members(&case.expr, fam, short_limit.min(maxlen) + 1) {
                    Some(m) => m,
                    None => {
                        st.count("family_ill_addressed");
                        return Ok(());
                    },
                };
                let loc = match fam {
                    Fam::Subst { loc } | Fam::Unroll { loc } | Fam::Wrap { loc, .. } => loc,
                    _ => unreachable!(),
                };
                if loc_depth(loc) >= 1 || !matches!(loc.last(), Some(Step::Tok(0))) {
                    marked_nested = true;
                }
                if let Some(t) = get_at(&case.expr, loc) {
                    let v = vec![t.clone()];
                    tree_in_marked = any_tok(&v, &|t, _| matches!(t, Tok::Tree { .. }));
                }
                // writing a repetition out zero times next to a tree wildcard changes what delimits
                // that wildcard (`**/<a:0,>` → `**/`): not a member
                let zero_next_to_tree = match (fam, concat_of(&case.expr, loc)) {
                    (Fam::Unroll { .. }, Some((conc, i))) => {
                        let prev = conc[..i].iter().rev().find(|t| !t.is_flag());
                        let next = conc[i + 1..].iter().find(|t| !t.is_flag());
                        prev.map_or(false, |t| ends_with_tree(&vec![t.clone()]))
                            || next.map_or(false, |t| starts_with_tree(&vec![t.clone()]))
                    },
                    _ => false,
                };
                for (label, m) in ms {
                    if label == "x0" && zero_next_to_tree {
                        st.count("member_not_expressible");
                        complete = false;
                        continue;
                    }
                    if !is_wellformed(&m) {
                        if matches!(fam, Fam::Unroll { .. }) {
                            // an unrolling that cannot be written down is simply not a member
                            st.count("member_not_expressible");
                            complete = false;
                            continue;
                        }
                        st.count("family_discarded_member_not_expressible");
                        return Ok(());
                    }
                    let tx = render_text(&m);
                    match build(&tx) {
                        Ok(Ok(g)) => globs.push((label, tx, g)),
                        Ok(Err(_)) => {
                            if matches!(fam, Fam::Unroll { .. }) {
                                st.count("member_not_built");
                                // the ⇒ direction needs every unrolling: remember the gap
                                globs.push((format!("!{}", label), tx, base.clone()));
                                continue;
                            }
                            st.count("family_discarded_member_not_built");
                            return Ok(());
                        },
                        Err(_) => {
                            st.panicked += 1;
                            return Ok(());
                        },
                    }
                }
                family_text = format!(
                    "{} ~ {:?}",
                    base_text,
                    globs.iter().map(|g| g.1.as_str()).collect::<Vec<_>>()
                );
            },
        }
        match &case.fam {
            Fam::Subst { .. } => st.count("family_subst"),
            Fam::Unroll { .. } => st.count("family_unroll"),
            Fam::Wrap { .. } => st.count("family_wrap"),
            _ => {},
        }
        if marked_nested {
            st.count("marked_nested");
        }
        if tree_in_marked {
            st.count("tree_in_marked");
        }
        let complete = complete && globs.iter().all(|g| !g.0.starts_with('!'));
        let two_way = match &case.fam {
            Fam::Subst { loc } | Fam::Unroll { loc } => !enclosed_by_multi_rep(&case.expr, loc),
            _ => true,
        };
        if !two_way {
            st.count("one_directional_inside_repetition");
        }
        let (mut any_acc, mut any_rej) = (false, false);
        for p in &case.paths {
            if base.is_match(p.as_str()) {
                any_acc = true;
            }
            else {
                any_rej = true;
            }
        }
        for p in &case.paths {
            st.eval(1);
            let mb = base.is_match(p.as_str());
            let ms: Vec<bool> = globs
                .iter()
                .map(|(l, _, g)| if l.starts_with('!') { false } else { g.is_match(p.as_str()) })
                .collect();
            let union = ms.iter().any(|x| *x);
            let fail = match &case.fam {
                Fam::Subst { .. } => (union && !mb) || (mb && !union && two_way),
                Fam::Wrap { .. } => mb != union,
                Fam::Unroll { loc } => {
                    // ⇐ always; ⇒ only when every needed unrolling is present
                    let (lo, hi) = match get_at(&case.expr, loc) {
                        Some(Tok::Rep { lo, hi, .. }) => (*lo, *hi),
                        _ => (0, None),
                    };
                    let plen = p.chars().count();
                    let have_to = lo + short_limit.min(maxlen) + 1;
                    let need_to = hi.unwrap_or(usize::MAX).min(lo + plen);
                    let all_present = complete && two_way && need_to <= have_to;
                    (union && !mb) || (mb && !union && all_present)
                },
                _ => false,
            };
            if fail {
                // F-REP-TREE: a tree wildcard at the edge of a repetition body is encoded by the
                // position of the repetition token, not of the iteration
                if let Fam::Unroll { loc } = &case.fam {
                    if let Some(Tok::Rep { body, .. }) = get_at(&case.expr, loc) {
                        if (starts_with_tree(body) || ends_with_tree(body))
                            && crate::findings::is_open("F-REP-TREE", "C07")
                        {
                            st.known("F-REP-TREE", || format!("`{}` on {:?}", base_text, p));
                            continue;
                        }
                    }
                }
                let detail: Vec<String> =
                    globs.iter().zip(ms.iter()).map(|(g, m)| format!("`{}`→{}", g.1, m)).collect();
                return Err(format!(
                    "family {:?}: on path {:?} base `{}` → {} but members {}",
                    case.fam, p, base_text, mb, detail.join(", ")
                ));
            }
            if marked_nested && any_acc && any_rej {
                st.nontrivial(&(family_text.as_str(), p.as_str()), || {
                    json!({"family": family_text, "path": p, "base_matches": mb})
                });
            }
        }
        Ok(())
    }
}
