//! C15 — Depth and link behaviours bound the walk as documented.

use crate::ast::*;
use crate::engine::*;
use crate::fsmodel::*;
use crate::gen::*;
use crate::props::c02::{full_glob, gen_shape, Shape};
use crate::props::common::*;
use crate::props::fscommon::*;
use serde::{Deserialize, Serialize};
use serde_json::json;
use std::collections::BTreeMap;
use wax::walk::{DepthBehavior, DepthMax, DepthMin, DepthMinMax, LinkBehavior, PathExt, WalkBehavior};
use wax::Program;

pub struct C15;

#[derive(Serialize, Deserialize, Clone, Copy, Debug, PartialEq)]
pub enum Ctor {
    Unbounded,
    Max,
    MinOrUnbounded,
    DepthsOrMax,
    Bounded,
    BoundedAtVariance,
    /// `DepthMinMax { min, extent }` written as a struct literal (the fields are public) with an
    /// extent so large that `min + extent` does not fit: the maximum saturates, i.e. there is none
    #[serde(alias = "LiteralSaturated")]
    LiteralSaturated,
}

#[derive(Serialize, Deserialize, Clone, Debug)]
pub struct Case {
    pub tree: TreeSpec,
    pub base: Base,
    pub glob: Option<(Shape, Expr)>,
    pub ctor: Ctor,
    pub a: usize,
    pub b: usize,
    pub follow: bool,
    /// how the behaviour reaches the walk: 0 = `WalkBehavior` struct, 1 = the `DepthBehavior`,
    /// 2 = the specific `DepthMax` / `DepthMin` / `DepthMinMax`, 3 = the `LinkBehavior`, 4 = `()` /
    /// plain `walk` (each only where it says the same thing; otherwise the struct is used)
    #[serde(default)]
    pub via: u8,
}

/// the behaviour a constructor yields and the effective (min, max) the documentation promises;
/// `None` = the constructor refuses the arguments
fn make(ctor: Ctor, a: usize, b: usize, variance: Option<wax::query::DepthVariance>) -> Result<Option<(DepthBehavior, Option<usize>, Option<usize>)>, String> {
    let nz = |x: usize| if x == 0 { None } else { Some(x) };
    Ok(match ctor {
        Ctor::Unbounded => Some((DepthBehavior::Unbounded, None, None)),
        Ctor::Max => Some((DepthMax(a).into(), None, Some(a))),
        Ctor::MinOrUnbounded => {
            let d = DepthMin::from_min_or_unbounded(a);
            if (a == 0) != (d == DepthBehavior::Unbounded) {
                return Err(format!("DepthMin::from_min_or_unbounded({}) = {:?}", a, d));
            }
            Some((d, nz(a), None))
        },
        Ctor::DepthsOrMax => {
            let d = DepthMinMax::from_depths_or_max(a, b);
            let d2 = DepthMinMax::from_depths_or_max(b, a);
            if d != d2 {
                return Err(format!("DepthMinMax::from_depths_or_max({a}, {b}) = {:?} but with swapped arguments {:?}", d, d2));
            }
            let (lo, hi) = (a.min(b), a.max(b));
            Some((d, nz(lo), Some(hi)))
        },
        Ctor::Bounded => {
            // contracts: (None, None) → None; misordered → None; zero minimum → None
            if DepthBehavior::bounded(None, None).is_some() {
                return Err("DepthBehavior::bounded(None, None) is Some".into());
            }
            let d = DepthBehavior::bounded(Some(a), Some(b));
            if a > b && d.is_some() {
                return Err(format!("DepthBehavior::bounded({a}, {b}) accepts misordered bounds: {:?}", d));
            }
            if a <= b && a > 0 && d.is_none() {
                return Err(format!("DepthBehavior::bounded({a}, {b}) refuses ordered bounds"));
            }
            match d {
                Some(d) => Some((d, Some(a), Some(b))),
                None => {
                    // also exercise the one-sided forms
                    match (DepthBehavior::bounded(None, Some(b)), DepthBehavior::bounded(Some(a), None)) {
                        (Some(_), m) if (a == 0) != m.is_none() => {
                            return Err(format!("DepthBehavior::bounded({a}, None) = {:?}", m));
                        },
                        (None, _) => return Err(format!("DepthBehavior::bounded(None, {b}) is None")),
                        _ => {},
                    }
                    None
                },
            }
        },
        Ctor::LiteralSaturated => {
            let min = std::num::NonZeroUsize::new(a.max(1)).unwrap();
            let d = DepthMinMax { min, extent: usize::MAX - b.min(a.max(1) - 1) };
            Some((DepthBehavior::MinMax(d), Some(a.max(1)), None))
        },
        Ctor::BoundedAtVariance => {
            let v = match variance {
                Some(v) => v,
                None => return Ok(None),
            };
            let lower = match v {
                wax::query::DepthVariance::Invariant(n) => n,
                wax::query::DepthVariance::Variant(r) => match r.lower() {
                    wax::query::Boundedness::Bounded(n) => n.get(),
                    _ => 0,
                },
            };
            let (lo, hi) = (a.min(b), a.max(b));
            match DepthBehavior::bounded_at_depth_variance(Some(lo), Some(hi), v) {
                Some(d) => Some((d, Some(lo + lower), Some(hi + lower))),
                None => {
                    if lo + lower > 0 {
                        return Err(format!("DepthBehavior::bounded_at_depth_variance({lo}, {hi}, {:?}) is None", v));
                    }
                    None
                },
            }
        },
    })
}

impl Property for C15 {
    type Case = Case;
    fn id(&self) -> &'static str {
        "C15"
    }
    fn rule(&self) -> String {
        "generated trees with symbolic links (to files, to directories, dangling, re-entrant to \
         parent / grand-parent / self) x Path::walk or globs (`**`, selective, invariant prefixes \
         of 0-3 components, rooted) x depth behaviours built through every constructor (and handed to the walk as the struct or through each `Into<WalkBehavior>` conversion that expresses them) with \
         bounds 0..6 (including maximum < prefix length and minimum > tree height) x both link \
         behaviours; one evaluation = one walk compared with the depth-filtered reference \
         traversal under the same link policy (Ok multiset, error multiset by path, termination by \
         item count); non-trivial = the tree has a directory link, or the bounds cut the tree; \
         distinct by (tree, walk, behaviour)"
            .into()
    }
    fn assumptions(&self) -> Vec<String> {
        vec![
            "depth = number of components of the relative segment (prefix components included)".into(),
            "a link is re-entrant when its target is the same file as a directory on the current traversal path; a link to a directory above the walk root is followed once".into(),
            "globs whose invariant prefix names a symbolic link are outside the domain (walkdir follows a root link by design)".into(),
            "termination is judged by item count (cap 10x reference + 100), never by wall clock".into(),
        ]
    }
    fn budget(&self, tier: Tier) -> (u32, u32) {
        match tier {
            Tier::Quick => (2000, 8),
            Tier::Thorough => (12000, 16),
        }
    }
    fn tape_len(&self) -> usize {
        320
    }
    fn required_counters(&self) -> Vec<&'static str> {
        vec!["walks", "read_target_with_directory_link", "reentrant_link_under_read_target", "dangling_link_under_read_target", "bounds_cut_tree", "max_below_prefix_length", "ctor_refused", "glob_walks", "path_walks", "rooted_walks", "behaviour_via_conversion", "dotdot_prefix_walks"]
    }
    fn decode(&self, t: &mut Tape) -> Case {
        let tree = gen_tree(t, &TreeCfg { links: true, ..TreeCfg::default() });
        let base = if t.chance(40) { gen_base(t, &tree) } else { Base::Abs };
        let glob = if t.chance(90) {
            None
        }
        else {
            let shape = match gen_shape(t, &tree, &base) {
                // `..` prefixes count as levels of depth like any other component; `.` is the
                // open finding F-WALK-DOT (C02, C14)
                Shape::Dots(c) if c.iter().any(|x| x == ".") => Shape::Plain,
                s => s,
            };
            let g = match t.below(4) {
                0 => vec![Tok::Tree { lead: false, trail: false }],
                1 => vec![Tok::Tree { lead: false, trail: true }, Tok::Zom { lazy: false }],
                3 => {
                    // a pruning glob: a selective first component, then anything — so that links
                    // (leaves when read as files) and directories are discarded as trees
                    let names = tree_names(&tree);
                    let mut e = match t.below(3) {
                        0 => vec![Tok::Zom { lazy: false }, Tok::lit(&t.pick(&names).chars().last().map(String::from).unwrap_or_default())],
                        1 => vec![Tok::Alt(vec![vec![Tok::lit(&t.pick(&names))], vec![Tok::lit(&t.pick(&names))]])],
                        _ => vec![Tok::One, Tok::Zom { lazy: false }],
                    };
                    e.push(Tok::Tree { lead: true, trail: false });
                    normalize(&e, true)
                },
                _ => gen_expr(t, &fs_glob_cfg(&tree)),
            };
            Some((shape, g))
        };
        let ctor = t.pick(&[Ctor::Unbounded, Ctor::Max, Ctor::MinOrUnbounded, Ctor::DepthsOrMax, Ctor::Bounded, Ctor::BoundedAtVariance, Ctor::Max, Ctor::DepthsOrMax, Ctor::LiteralSaturated]);
        Case { tree, base, glob, ctor, a: t.below(6), b: t.below(6), follow: t.chance(150), via: t.below(5) as u8 }
    }
    fn directed(&self) -> Vec<Case> {
        let d = |p: &str| Node { path: p.into(), kind: Kind::Dir, unreadable: false };
        let f = |p: &str| Node { path: p.into(), kind: Kind::File, unreadable: false };
        vec![Case {
            tree: TreeSpec { nodes: vec![d("a"), d("a/b"), f("a/b/c")] },
            base: Base::Abs,
            glob: Some((Shape::Prefixed("a/b".into(), 0), vec![Tok::Tree { lead: false, trail: false }])),
            ctor: Ctor::Max,
            a: 1,
            b: 0,
            follow: false,
            via: 0,
        }]
    }
    fn shrink(&self, c: &Case) -> Vec<Case> {
        let mut out = Vec::new();
        for i in (0..c.tree.nodes.len()).rev() {
            let p = &c.tree.nodes[i].path;
            let refd = matches!(&c.base, Base::Sub(d) if d == p || d.starts_with(&format!("{}/", p)))
                || matches!(&c.glob, Some((Shape::Prefixed(d, _), _)) if d.contains(p.as_str()))
                || c.tree.nodes.iter().any(|n| matches!(&n.kind, Kind::Link(t) if t == p));
            if refd {
                continue;
            }
            let nodes: Vec<Node> = c.tree.nodes.iter().filter(|n| n.path != *p && !n.path.starts_with(&format!("{}/", p))).cloned().collect();
            out.push(Case { tree: TreeSpec { nodes }, ..c.clone() });
        }
        if c.ctor != Ctor::Unbounded {
            out.push(Case { ctor: Ctor::Unbounded, ..c.clone() });
        }
        if c.follow {
            out.push(Case { follow: false, ..c.clone() });
        }
        if c.glob.is_some() {
            out.push(Case { glob: None, ..c.clone() });
        }
        if let Some((sh, g)) = &c.glob {
            for e in shrink_expr(g) {
                out.push(Case { glob: Some((sh.clone(), normalize(&e, true))), ..c.clone() });
            }
        }
        out
    }
    fn check(&self, case: &Case, st: &mut Stats) -> CheckResult {
        let s = match Scratch::create(&case.tree) {
            Ok(s) => s,
            Err(_) => {
                st.count("scratch_failed");
                return Ok(());
            },
        };
        let (base_given, base_abs) = base_paths(&case.base, &s);
        if !base_abs.is_dir() {
            return Ok(());
        }
        let root_abs = s.root.to_string_lossy().to_string();
        // glob
        let glob = match &case.glob {
            None => None,
            Some((shape, g)) => {
                let expr = full_glob(shape, g, &root_abs);
                let dotted = matches!(shape, Shape::Dots(_));
                if (*shape != Shape::Rooted && starts_rooting_expr(&strip_flags(&expr))) || has_sep_class(&expr) || crate::props::c12::has_dot_component(if dotted { g } else { &expr }).0 {
                    return Ok(());
                }
                let text = render_text(&expr);
                if text.ends_with('/') {
                    return Ok(());
                }
                match build(&text) {
                    Ok(Ok(g)) => Some((g, text, *shape == Shape::Rooted)),
                    _ => {
                        st.count("not_built");
                        return Ok(());
                    },
                }
            },
        };
        let variance = glob.as_ref().and_then(|g| guard(|| g.0.depth()).ok());
        // a rooted glob counts depth from the file-system root: shift the generated bounds so
        // that they straddle the prefix (else they could never cut inside the tree)
        let (a, b) = match &glob {
            Some((_, _, true)) => {
                let k = s.root.components().count().saturating_sub(2);
                (case.a + k, case.b + k)
            },
            _ => (case.a, case.b),
        };
        let made = match make(case.ctor, a, b, variance) {
            Ok(m) => m,
            Err(m) => return Err(m),
        };
        let (depth, min, max) = match made {
            Some(x) => x,
            None => {
                st.count("ctor_refused");
                return Ok(());
            },
        };
        let beh = WalkBehavior { depth, link: if case.follow { LinkBehavior::ReadTarget } else { LinkBehavior::ReadFile } };
        // walk start and the text of the prefix
        let (start_given, start_abs, prefix, rooted) = match &glob {
            None => (base_given.clone(), base_abs.clone(), String::new(), false),
            Some((g, _, rooted)) => {
                let (pre, _) = g.clone().partition();
                let pre_text = pre.to_string_lossy().trim_end_matches('/').to_string();
                if *rooted {
                    let p = if pre_text.is_empty() { std::path::PathBuf::from("/") } else { std::path::PathBuf::from(&pre_text) };
                    (p.clone(), p, pre_text, true)
                }
                else if pre_text.is_empty() {
                    (base_given.clone(), base_abs.clone(), String::new(), false)
                }
                else {
                    (base_given.join(&pre_text), base_abs.join(&pre_text), pre_text, false)
                }
            },
        };
        let dotted = matches!(&case.glob, Some((Shape::Dots(_), _)));
        if dotted && prefix.split('/').any(|c| c == "..") {
            st.count("dotdot_prefix_walks");
        }
        if prefix.split('/').any(|c| c == "." || (c == ".." && !dotted)) {
            // dot components in the prefix (also through `[.]`) are C02's business
            st.count("skipped_dot_prefix");
            return Ok(());
        }
        // outside the domain: the start is not a real directory (missing, a file, or a link)
        match std::fs::symlink_metadata(&start_abs) {
            Ok(m) if m.is_dir() => {},
            _ => {
                st.count("start_not_a_directory");
                return Ok(());
            },
        }
        // no link inside the prefix either
        {
            let mut p = base_abs.clone();
            if !rooted {
                for c in prefix.split('/').filter(|c| !c.is_empty()) {
                    p = p.join(c);
                    if std::fs::symlink_metadata(&p).map(|m| m.file_type().is_symlink()).unwrap_or(true) {
                        st.count("link_in_prefix");
                        return Ok(());
                    }
                }
            }
        }
        let pivot = if rooted { std::path::Path::new(&prefix).components().count().max(1) } else { prefix.split('/').filter(|c| !c.is_empty()).count() };
        // which faults must the walk reach?  Not decided by mirroring the walker's pruning: a fault
        // is *required* when something at or beneath its path can still match the glob (prefix
        // viability of the glob's own program), and *allowed* whenever the reference traversal
        // meets it within the depth bound.  Anything in between is the walker's free choice.
        let via: Option<crate::viable::Viability> = match &glob {
            Some((g, _, _)) => crate::viable::Viability::new(&g.verif_program_pattern()),
            None => None,
        };
        let cand_of = |rel: &str| -> String {
            if rooted {
                if rel.is_empty() { start_abs.to_string_lossy().to_string() } else { start_abs.join(rel).to_string_lossy().to_string() }
            }
            else if prefix.is_empty() {
                rel.to_string()
            }
            else if rel.is_empty() {
                prefix.clone()
            }
            else {
                format!("{}/{}", prefix, rel)
            }
        };
        // reference
        let reference = ref_walk(&start_abs, case.follow);
        let mut optional_root: Option<String> = None;
        let mut exp_ok: BTreeMap<String, usize> = BTreeMap::new();
        let mut req_err: BTreeMap<String, usize> = BTreeMap::new();
        let mut allowed_err: BTreeMap<String, usize> = BTreeMap::new();
        let mut cut_min = false;
        let mut cut_max = false;
        let mut has_dir_link = false;
        for it in &reference {
            match it {
                RefItem::Entry { rel, depth: d, .. } => {
                    let depth = d + pivot;
                    let path = if rel.is_empty() { norm(&start_given) } else { norm(&start_given.join(rel)) };
                    if min.map_or(false, |m| depth < m) {
                        cut_min = true;
                        continue;
                    }
                    if max.map_or(false, |m| depth > m) {
                        cut_max = true;
                        continue;
                    }
                    let keep = match &glob {
                        None => true,
                        Some((g, _, _)) => g.is_match(cand_of(rel).as_str()),
                    };
                    if keep && rel.is_empty() && glob.is_some() && prefix.is_empty() {
                        // the base itself may but need not be yielded (C02)
                        optional_root = Some(path);
                        continue;
                    }
                    if keep {
                        *exp_ok.entry(path).or_insert(0) += 1;
                    }
                },
                RefItem::Error { rel, what } => {
                    // an error beyond the maximum depth is never reached
                    let d = rel.split('/').filter(|c| !c.is_empty()).count() + pivot;
                    let own = *what == "unreadable directory";
                    // reading a directory at depth d is needed only if its children (d+1) may be
                    // visited; reading it at the maximum depth anyway is tolerated
                    let allowed = max.map_or(true, |m| d <= m);
                    let within = if own { max.map_or(true, |m| d < m) } else { allowed };
                    if !allowed {
                        continue;
                    }
                    let path = if rel.is_empty() { norm(&start_given) } else { norm(&start_given.join(rel)) };
                    *allowed_err.entry(path.clone()).or_insert(0) += 1;
                    let must = within
                        && match (&glob, &via) {
                            (None, _) => true,
                            (Some(_), Some(v)) => {
                                let cand = cand_of(rel);
                                v.beneath_viable(&cand) == Some(true) || (!own && v.matches(&cand) == Some(true))
                            },
                            (Some(_), None) => false,
                        };
                    if !must {
                        st.count("fault_optional");
                        continue;
                    }
                    match *what {
                        "link re-enters an ancestor" => st.count("reentrant_link_under_read_target"),
                        "dangling link" => st.count("dangling_link_under_read_target"),
                        _ => {},
                    }
                    *req_err.entry(path).or_insert(0) += 1;
                },
            }
        }
        if glob.is_some() && !rooted && !prefix.is_empty() {
            // a walker is free to start at the base instead of at base + prefix: the faults it
            // would meet on the way are allowed as well (never required)
            for it in ref_walk(&base_abs, case.follow) {
                if let RefItem::Error { rel, .. } = it {
                    let path = if rel.is_empty() { norm(&base_given) } else { norm(&base_given.join(&rel)) };
                    allowed_err.entry(path).or_insert(1);
                }
            }
        }
        if case.follow && case.tree.nodes.iter().any(|n| matches!(&n.kind, Kind::Link(t) if case.tree.nodes.iter().any(|m| m.path == *t && m.kind == Kind::Dir) || t.is_empty())) {
            has_dir_link = true;
            st.count("read_target_with_directory_link");
        }
        if cut_min || cut_max {
            st.count("bounds_cut_tree");
        }
        if max.map_or(false, |m| m < pivot) {
            st.count("max_below_prefix_length");
        }
        // actual
        let cap = 10 * reference.len() + 100;
        // the same behaviour through every `Into<WalkBehavior>` conversion that can express it
        let run = |b: WalkBehavior| match &glob {
            None => drain(start_given.walk_with_behavior(b), cap),
            Some((g, _, _)) => drain(g.walk_with_behavior(base_given.clone(), b), cap),
        };
        let default_link = !case.follow;
        let unbounded = depth == DepthBehavior::Unbounded;
        let walked = guard(|| match case.via {
            1 if default_link => {
                st.count("behaviour_via_conversion");
                run(depth.into())
            },
            2 if default_link && !unbounded => {
                st.count("behaviour_via_conversion");
                match depth {
                    DepthBehavior::Max(m) => run(m.into()),
                    DepthBehavior::Min(m) => run(m.into()),
                    DepthBehavior::MinMax(m) => run(m.into()),
                    DepthBehavior::Unbounded => run(beh),
                }
            },
            3 if unbounded => {
                st.count("behaviour_via_conversion");
                run(beh.link.into())
            },
            4 if unbounded && default_link => {
                st.count("behaviour_via_conversion");
                match &glob {
                    None => drain(start_given.walk(), cap),
                    Some((g, _, _)) => {
                        if case.a % 2 == 0 {
                            drain(g.walk(base_given.clone()), cap)
                        }
                        else {
                            drain(g.walk_with_behavior(base_given.clone(), ()), cap)
                        }
                    },
                }
            },
            _ => run(beh),
        });
        let (seen, capped) = match walked {
            Ok(x) => x,
            Err(m) => return Err(format!("walk panicked: {}", m)),
        };
        st.count("walks");
        st.eval(1);
        match &glob {
            None => st.count("path_walks"),
            Some((_, _, true)) => {
                st.count("rooted_walks");
                st.count("glob_walks");
            },
            _ => st.count("glob_walks"),
        }
        let what = format!(
            "{} from {:?} with {:?} ({:?}: min {:?}, max {:?}), {}, tree {:?}",
            match &glob {
                None => "Path::walk".to_string(),
                Some((_, t, _)) => format!("glob `{}`", t),
            },
            case.base,
            depth,
            case.ctor,
            min,
            max,
            if case.follow { "ReadTarget" } else { "ReadFile" },
            case.tree.nodes.iter().map(|n| format!("{}{}", n.path, match &n.kind { Kind::Dir => "/".to_string(), Kind::File => String::new(), Kind::Link(t) => format!(" -> {:?}", t), Kind::Dangling => " -> (dangling)".to_string() })).collect::<Vec<_>>()
        );
        if capped {
            return Err(format!("{}: the walk did not terminate within {} items (the tree has {} reachable entries)", what, cap, reference.len()));
        }
        let mut act_ok: BTreeMap<String, usize> = BTreeMap::new();
        let mut act_err: BTreeMap<String, usize> = BTreeMap::new();
        for it in &seen {
            match it {
                Seen::Ok { path, .. } => {
                    if Some(path) == optional_root.as_ref() {
                        optional_root = None;
                        continue;
                    }
                    *act_ok.entry(path.clone()).or_insert(0) += 1
                },
                Seen::Err { path, .. } => *act_err.entry(path.clone().unwrap_or_default()).or_insert(0) += 1,
            }
        }
        if act_ok != exp_ok {
            let missing: Vec<&String> = exp_ok.keys().filter(|k| act_ok.get(*k) != exp_ok.get(*k)).collect();
            let extra: Vec<&String> = act_ok.keys().filter(|k| act_ok.get(*k) != exp_ok.get(*k) && !missing.contains(k)).collect();
            return Err(format!("{}: entries differ from the depth-filtered reference traversal — missing or miscounted {:?}, unexpected {:?}", what, missing, extra));
        }
        // exactly one error per required fault; no error that is not a fault of the reference
        for (p, n) in &req_err {
            if act_err.get(p) != Some(n) {
                return Err(format!("{}: error items (by path) {:?}; the fault at {:?} must be reported exactly once (required {:?}, possible {:?})", what, act_err, p, req_err, allowed_err));
            }
        }
        for (p, n) in &act_err {
            if allowed_err.get(p).map_or(true, |m| n > m) {
                return Err(format!("{}: error items (by path) {:?}; {:?} is not a fault the reference traversal meets within the bounds (possible {:?})", what, act_err, p, allowed_err));
            }
        }
        if has_dir_link || cut_min || cut_max {
            let key = format!("{:?}|{}", case.tree, what);
            st.nontrivial(&key, || json!({"walk": what, "yielded": act_ok.keys().collect::<Vec<_>>(), "errors": act_err.keys().collect::<Vec<_>>()}));
        }
        Ok(())
    }
}
