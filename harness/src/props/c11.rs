//! C11 — Invariant text is the one and only path the pattern matches.

use crate::ast::*;
use crate::engine::*;
use crate::gen::*;
use crate::props::common::*;
use serde_json::json;
use std::path::Path;
use wax::query::TextVariance;

pub struct C11;

/// generator biased to invariance
fn gen_inv_expr(t: &mut Tape) -> Expr {
    fn piece(t: &mut Tape, depth: usize) -> Vec<Tok> {
        let lit = |t: &mut Tape| -> Tok {
            let ci = t.chance(60);
            let text: String = if ci && t.chance(80) {
                // exotic casing: title-case digraphs etc.
                let n = 1 + t.below(2);
                (0..n).map(|_| t.pick(&['ǅ', 'ǈ', 'ǲ', 'ᾈ', '1', '.', 'a', 'é', 'ſ', 'K', 'ς', 'ß', 'İ'])).collect()
            }
            else if ci && t.chance(100) {
                t.pick(&["1", ".", "0-1", "字", "_", " "]).to_string()
            }
            else {
                let n = 1 + t.below(3);
                (0..n).map(|_| t.pick(ALPHA)).collect()
            };
            Tok::Lit { text, ci }
        };
        match t.weighted(&[34, 18, 10, if depth < 2 { 14 } else { 0 }, if depth < 2 { 12 } else { 0 }, 4, 4, 4]) {
            0 => vec![lit(t)],
            1 => vec![Tok::Sep],
            2 => vec![Tok::Class {
                neg: false,
                items: vec![t.pick(&[
                    Item::Ch('a'),
                    Item::Range('a', 'a'),
                    Item::Ch('/'),
                    Item::Ch('A'),
                    Item::Range('a', 'b'),
                    Item::Range('b', 'a'),
                    Item::Range('é', 'a'),
                    Item::Ch('é'),
                    Item::Ch('.'),
                    // one character that means something inside a class of the regular expression
                    Item::Ch('^'),
                    Item::Range('^', '^'),
                    Item::Ch('&'),
                    Item::Ch('~'),
                    Item::Ch('-'),
                    Item::Ch(']'),
                    Item::Ch('['),
                    Item::Ch(':'),
                    Item::Ch('|'),
                ])],
            }],
            3 => {
                // alternation: equal / unequal / case-different branches
                let a = seq(t, depth + 1, 2);
                let b = match t.below(4) {
                    0 | 1 => a.clone(),
                    2 => seq(t, depth + 1, 2),
                    _ => a
                        .iter()
                        .map(|x| match x {
                            Tok::Lit { text, ci } => Tok::Lit { text: text.to_uppercase(), ci: *ci },
                            x => x.clone(),
                        })
                        .collect(),
                };
                if t.chance(60) {
                    vec![Tok::Alt(vec![a])]
                }
                else {
                    vec![Tok::Alt(vec![a, b])]
                }
            },
            4 => {
                let body = seq(t, depth + 1, 2);
                let (lo, hi) = t.pick(&[(1, Some(1)), (2, Some(2)), (3, Some(3)), (1, Some(2)), (0, Some(1)), (1, None), (0, None)]);
                vec![Tok::Rep { body, lo, hi, spell: t.below(2) as u8 }]
            },
            5 => vec![Tok::One],
            6 => vec![Tok::Zom { lazy: false }],
            _ => vec![Tok::Class { neg: true, items: vec![Item::Ch('a')] }],
        }
    }
    fn seq(t: &mut Tape, depth: usize, max: usize) -> Expr {
        let n = 1 + t.below(max);
        let mut e = Vec::new();
        for _ in 0..n {
            e.extend(piece(t, depth));
        }
        e
    }
    let e = seq(t, 0, 4);
    normalize(&e, true)
}

fn has_sep_class(e: &Expr) -> bool {
    any_tok(e, &|t, _| match t {
        Tok::Class { items, .. } => items.iter().any(|i| match i {
            Item::Ch(c) => *c == '/',
            Item::Range(a, b) => *a <= '/' && '/' <= *b,
        }),
        _ => false,
    })
}

fn has_cased_ci_literal(e: &Expr) -> bool {
    any_tok(e, &|t, _| match t {
        Tok::Lit { text, ci: true } => text.chars().any(|c| {
            c.is_lowercase() != c.is_uppercase() || !c.to_lowercase().eq([c]) || !c.to_uppercase().eq([c])
        }),
        _ => false,
    })
}

fn case_mutants(s: &str) -> Vec<String> {
    let cs: Vec<char> = s.chars().collect();
    let mut out = Vec::new();
    for i in 0..cs.len() {
        let c = cs[i];
        let mut alts: Vec<char> = c.to_lowercase().chain(c.to_uppercase()).filter(|x| *x != c).collect();
        // simple-fold partners that to_lower/to_upper do not reach
        match c {
            'ǅ' => alts.extend(['Ǆ', 'ǆ']),
            'k' | 'K' => alts.push('K'),
            's' | 'S' => alts.push('ſ'),
            _ => {},
        }
        for a in alts {
            let mut v = cs.clone();
            v[i] = a;
            out.push(v.into_iter().collect());
        }
    }
    out
}

impl Property for C11 {
    type Case = PatCase;
    fn id(&self) -> &'static str {
        "C11"
    }
    fn rule(&self) -> String {
        "expressions biased to invariance (literals incl. exotic casing under (?i), single-character \
         classes incl. `[/]`, equal / unequal / case-different alternation branches, converged and \
         open repetitions) plus ordinary rule-aware ASTs, and any() of two; pool = invariant text, \
         its case / edit mutants, witnesses, regex-directed samples; one evaluation = one (pattern, \
         path); non-trivial = an Invariant verdict on an expression with a branch token or class, or \
         a Variant verdict proved by two distinct matched paths; distinct by (pattern, path)"
            .into()
    }
    fn assumptions(&self) -> Vec<String> {
        vec![
            "Unix: a literal with casing under (?i) must be variant; `has casing` = some case mapping changes the character".into(),
            "the invariant text need not be matched when the expression contains a class listing `/` (stated exception)".into(),
        ]
    }
    fn budget(&self, tier: Tier) -> (u32, u32) {
        match tier {
            Tier::Quick => (5000, 8),
            Tier::Thorough => (200000, 16),
        }
    }
    fn required_counters(&self) -> Vec<&'static str> {
        vec!["invariant", "variant", "invariant_with_branch_or_class", "invariant_any", "exotic_ci_literal", "variant_proved_by_two_matches", "sep_class_exception"]
    }
    fn decode(&self, t: &mut Tape) -> PatCase {
        let n = 1 + t.weighted(&[80, 20]);
        let exprs: Vec<Expr> = (0..n)
            .map(|_| {
                if t.chance(60) {
                    gen_expr(t, &GenCfg { exotic_ci: true, ..GenCfg::default() })
                }
                else {
                    gen_inv_expr(t)
                }
            })
            .collect();
        let mut exprs = exprs;
        add_empty_member(t, &mut exprs);
        let mut paths = pat_pool(t, &exprs, 1);
        // mutants of the invariant text (if any) are derived in `check`, which needs wax's answer;
        // here: case mutants of every witness
        let extra: Vec<String> = paths.iter().take(6).flat_map(|p| case_mutants(p)).collect();
        paths.extend(extra);
        paths.sort();
        paths.dedup();
        PatCase { exprs, paths }
    }
    fn directed(&self) -> Vec<PatCase> {
        vec![
            PatCase { exprs: vec![vec![Tok::Lit { text: "ǅ".into(), ci: true }]], paths: vec!["ǅ".into(), "ǆ".into(), "Ǆ".into()] },
            PatCase { exprs: vec![vec![Tok::Lit { text: "ᾈ".into(), ci: true }]], paths: vec!["ᾈ".into(), "ᾀ".into()] },
        ]
    }
    fn shrink(&self, c: &PatCase) -> Vec<PatCase> {
        shrink_patcase(c)
    }
    fn check(&self, case: &PatCase, st: &mut Stats) -> CheckResult {
        let (text, pat) = match build_pat(&case.exprs) {
            Ok(Some(x)) => x,
            Ok(None) => {
                st.count("not_built");
                return Ok(());
            },
            Err(_) => {
                st.panicked += 1;
                return Ok(());
            },
        };
        let tv = match guard(|| pat.text()) {
            Ok(x) => x,
            Err(_) => {
                st.panicked += 1;
                return Ok(());
            },
        };
        let sep_class = case.exprs.iter().any(has_sep_class);
        let structured = case.exprs.iter().any(|e| any_tok(e, &|t, _| t.is_branch() || matches!(t, Tok::Class { .. })));
        if case.exprs.iter().any(|e| any_tok(e, &|t, _| matches!(t, Tok::Lit { ci: true, text } if text.chars().any(|c| !c.is_ascii() && c != 'é' && c != 'É' && c != '字')))) {
            st.count("exotic_ci_literal");
        }
        match &tv {
            TextVariance::Invariant(t) => {
                st.count("invariant");
                if pat.is_any() {
                    st.count("invariant_any");
                }
                if structured {
                    st.count("invariant_with_branch_or_class");
                }
                let t: &str = t.as_ref();
                // (c)
                if tv.as_path() != Some(Path::new(t)) || tv.clone().into_path_buf().as_deref() != Some(Path::new(t)) {
                    return Err(format!("{}: as_path()/into_path_buf() differ from the invariant text {:?}", text, t));
                }
                // (a)
                st.eval(1);
                if !pat.is_match(t) {
                    if sep_class {
                        st.count("sep_class_exception");
                    }
                    else {
                        return Err(format!("{} reports invariant text {:?} but does not match it", text, t));
                    }
                }
                // the converse clause: a cased literal under (?i) must be variant
                if case.exprs.iter().any(has_cased_ci_literal) {
                    return Err(format!(
                        "{} has a literal with casing under a case-insensitive flag but reports invariant text {:?}",
                        text, t
                    ));
                }
                // (b)
                let mut pool: Vec<String> = case.paths.clone();
                pool.extend(case_mutants(t));
                pool.push(format!("{}/", t));
                pool.push(format!("/{}", t));
                pool.push(format!("{}a", t));
                if !t.is_empty() {
                    let mut cs: Vec<char> = t.chars().collect();
                    cs.pop();
                    pool.push(cs.into_iter().collect());
                }
                for q in &pool {
                    if q == t {
                        continue;
                    }
                    st.eval(1);
                    if pat.is_match(q) {
                        return Err(format!(
                            "{} reports invariant text {:?} but also matches the different path {:?}",
                            text, t, q
                        ));
                    }
                    if structured {
                        st.nontrivial(&(text.as_str(), q.as_str()), || json!({"pattern": text, "invariant": t, "other_path_rejected": q}));
                    }
                }
            },
            TextVariance::Variant(()) => {
                st.count("variant");
                let mut matched: Vec<&String> = Vec::new();
                for q in &case.paths {
                    st.eval(1);
                    if pat.is_match(q) {
                        matched.push(q);
                    }
                }
                if matched.len() >= 2 {
                    st.count("variant_proved_by_two_matches");
                    st.nontrivial(&(text.as_str(), "variant"), || json!({"pattern": text, "variant_proved_by": [matched[0], matched[1]]}));
                }
            },
        }
        Ok(())
    }
}
