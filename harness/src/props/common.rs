//! Helpers shared by the property checks.

use crate::ast::*;
use crate::engine::guard;
use crate::gen::*;
use crate::refmatch;
use wax::{BuildError, Glob};

/// Build a glob; outer `Err` = wax panicked (C05's business), inner = BuildError.
pub fn build(text: &str) -> Result<Result<Glob<'static>, BuildError>, String> {
    guard(|| Glob::new(text).map(Glob::into_owned))
}

/// Like `build`, but half of the globs stay *borrowed* (their tokens point into `text`): the
/// borrowed and the owned token trees take different paths through partitioning and span
/// arithmetic, and both must be exercised.  Which one is a pure function of the text.
pub fn build_either(text: &str) -> Result<Result<Glob<'_>, BuildError>, String> {
    let owned = text.bytes().fold(0u32, |a, b| a.wrapping_mul(31).wrapping_add(b as u32)) % 2 == 1;
    guard(|| Glob::new(text).map(|g| if owned { g.into_owned() } else { g }))
}

pub fn pattern_of(text: &str) -> Option<String> {
    match build(text) {
        Ok(Ok(g)) => Some(g.verif_program_pattern().to_string()),
        _ => None,
    }
}

/// Candidate-path pool for an expression: witnesses, mutants, random, regex-directed, probes.
pub fn path_pool(t: &mut Tape, e: &Expr, pattern: Option<&str>, scale: usize) -> Vec<String> {
    let es = strip_flags(e);
    let mut out: Vec<String> = Vec::new();
    let mut ws: Vec<String> = Vec::new();
    for mode in [0u8, 1, 2, 0].iter().cycle().take(2 * scale) {
        if let Some(w) = refmatch::witness(&es, t, *mode) {
            ws.push(w);
        }
    }
    for w in &ws {
        out.push(w.clone());
    }
    if !ws.is_empty() {
        for _ in 0..4 * scale {
            let w = t.pick(&ws);
            out.push(mutate_path(t, &w));
        }
    }
    for _ in 0..2 * scale {
        out.push(gen_random_path(t));
    }
    if let Some(p) = pattern {
        for _ in 0..2 * scale {
            if let Some(s) = crate::rxgen::sample(p, t) {
                out.push(s);
            }
        }
    }
    out.push(String::new());
    out.push("/".into());
    out.retain(|p| p.len() <= 120);
    out.sort();
    out.dedup();
    out
}

pub fn short(s: &str) -> String {
    format!("{:?}", s)
}

// ------------------------------------------------------------------------------------------------
// glob-or-combinator patterns for the query properties (C09–C12)

use wax::query::{DepthVariance, TextVariance, When};
use wax::{Any, Program};

pub enum Pat {
    G(Glob<'static>),
    A(Any<'static>),
    /// a glob whose *queries* were read from the borrowed value (its token tree is the parser's;
    /// the owned value's tree has been rebuilt) — both share one compiled program, so matching
    /// through the owned value is matching of the borrowed one
    B(Glob<'static>, BorrowedQueries),
}

pub struct BorrowedQueries {
    pub text: TextVariance<'static>,
    pub depth: DepthVariance,
    pub root: When,
    pub exhaustive: When,
    pub semantic_literals: bool,
}

impl Pat {
    pub fn is_match(&self, p: &str) -> bool {
        match self {
            Pat::G(g) | Pat::B(g, _) => g.is_match(p),
            Pat::A(a) => a.is_match(p),
        }
    }
    pub fn depth(&self) -> DepthVariance {
        match self {
            Pat::G(g) => g.depth(),
            Pat::A(a) => a.depth(),
            Pat::B(_, q) => q.depth,
        }
    }
    pub fn text(&self) -> TextVariance<'static> {
        match self {
            Pat::G(g) => g.text(),
            Pat::A(a) => a.text(),
            Pat::B(_, q) => q.text.clone(),
        }
    }
    pub fn has_root(&self) -> When {
        match self {
            Pat::G(g) => g.has_root(),
            Pat::A(a) => a.has_root(),
            Pat::B(_, q) => q.root,
        }
    }
    pub fn is_exhaustive(&self) -> When {
        match self {
            Pat::G(g) => g.is_exhaustive(),
            Pat::A(a) => a.is_exhaustive(),
            Pat::B(_, q) => q.exhaustive,
        }
    }
    pub fn is_any(&self) -> bool {
        matches!(self, Pat::A(_))
    }
    /// the glob, if the pattern is one
    pub fn glob(&self) -> Option<&Glob<'static>> {
        match self {
            Pat::G(g) | Pat::B(g, _) => Some(g),
            Pat::A(_) => None,
        }
    }
    pub fn has_semantic_literals(&self) -> Option<bool> {
        match self {
            Pat::G(g) => Some(g.has_semantic_literals()),
            Pat::B(_, q) => Some(q.semantic_literals),
            Pat::A(_) => None,
        }
    }
}

/// A member that stands for the *empty combinator* `any([])` (an alternation without branches has
/// no spelling as text).  With such a member the pattern is built through the nested route:
/// `any([any([]), any([g1]), …])`.
pub fn empty_any_marker() -> Expr {
    vec![Tok::Alt(vec![])]
}
pub fn is_empty_any_marker(e: &Expr) -> bool {
    e.len() == 1 && matches!(&e[0], Tok::Alt(bs) if bs.is_empty())
}
/// now and then one member of the pattern is the empty combinator
pub fn add_empty_member(t: &mut Tape, exprs: &mut Vec<Expr>) {
    if t.chance(10) {
        let i = t.below(exprs.len() + 1);
        exprs.insert(i, empty_any_marker());
    }
}

/// Build a glob (one expression) or an `any` combinator (several).  `Ok(None)`: does not build.
pub fn build_pat(exprs: &[Expr]) -> Result<Option<(String, Pat)>, String> {
    if exprs.iter().any(is_empty_any_marker) {
        let mut members: Vec<Any<'static>> = Vec::new();
        let mut texts: Vec<String> = Vec::new();
        for e in exprs {
            if is_empty_any_marker(e) {
                match guard(|| wax::any(Vec::<Glob<'static>>::new()))? {
                    Ok(a) => members.push(a),
                    Err(_) => return Ok(None),
                }
                texts.push("any([])".into());
            }
            else {
                let text = render_text(e);
                let g = match build(&text)? {
                    Ok(g) => g,
                    Err(_) => return Ok(None),
                };
                match guard(|| wax::any([g]))? {
                    Ok(a) => members.push(a),
                    Err(_) => return Ok(None),
                }
                texts.push(format!("any([{:?}])", text));
            }
        }
        return match guard(|| wax::any(members))? {
            Ok(a) => Ok(Some((format!("any([{}])", texts.join(", ")), Pat::A(a)))),
            Err(_) => Ok(None),
        };
    }
    let texts: Vec<String> = exprs.iter().map(render_text).collect();
    if texts.len() == 1 {
        let text = &texts[0];
        let g = match build(text)? {
            Ok(g) => g,
            Err(_) => return Ok(None),
        };
        // half of the globs answer their queries from the borrowed value (a pure function of the
        // text decides which)
        let borrowed = text.bytes().fold(7u32, |a, b| a.wrapping_mul(131).wrapping_add(b as u32)) % 2 == 1;
        if borrowed {
            let q = guard(|| {
                Glob::new(text).ok().map(|b| BorrowedQueries {
                    text: match b.text() {
                        TextVariance::Invariant(c) => TextVariance::Invariant(std::borrow::Cow::Owned(c.into_owned())),
                        TextVariance::Variant(()) => TextVariance::Variant(()),
                    },
                    depth: b.depth(),
                    root: b.has_root(),
                    exhaustive: b.is_exhaustive(),
                    semantic_literals: b.has_semantic_literals(),
                })
            })?;
            return Ok(q.map(|q| (text.clone(), Pat::B(g, q))));
        }
        return Ok(Some((text.clone(), Pat::G(g))));
    }
    let mut gs = Vec::new();
    for t in &texts {
        match build(t)? {
            Ok(g) => gs.push(g),
            Err(_) => return Ok(None),
        }
    }
    match guard(|| wax::any(gs))? {
        Ok(a) => Ok(Some((format!("any({:?})", texts), Pat::A(a)))),
        Err(_) => Ok(None),
    }
}

/// pool over all member expressions of a pattern
pub fn pat_pool(t: &mut Tape, exprs: &[Expr], scale: usize) -> Vec<String> {
    let mut out = Vec::new();
    for e in exprs {
        if is_empty_any_marker(e) {
            continue;
        }
        let text = render_text(e);
        let pat = pattern_of(&text);
        out.extend(path_pool(t, e, pat.as_deref(), scale));
    }
    out.sort();
    out.dedup();
    out
}

#[derive(serde::Serialize, serde::Deserialize, Clone, Debug)]
pub struct PatCase {
    pub exprs: Vec<Expr>,
    pub paths: Vec<String>,
}

pub fn shrink_patcase(c: &PatCase) -> Vec<PatCase> {
    let mut out = Vec::new();
    if c.paths.len() > 1 {
        for p in &c.paths {
            out.push(PatCase { exprs: c.exprs.clone(), paths: vec![p.clone()] });
        }
    }
    if c.exprs.len() > 1 {
        for i in 0..c.exprs.len() {
            let mut e = c.exprs.clone();
            e.remove(i);
            out.push(PatCase { exprs: e, paths: c.paths.clone() });
        }
    }
    for (i, e) in c.exprs.iter().enumerate() {
        for s in shrink_expr(e) {
            let mut es = c.exprs.clone();
            es[i] = normalize(&s, true);
            out.push(PatCase { exprs: es, paths: c.paths.clone() });
        }
    }
    out
}
