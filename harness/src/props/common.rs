//! Helpers shared by the property checks.

use crate::ast::*;
use crate::engine::guard;
use crate::gen::*;
use crate::refmatch;
use wax::{BuildError, Glob};

/// Build a glob; outer `Err` = wax panicked (C05's business), inner = BuildError.
pub fn build(text: &str) -> Result<Result<Glob<'static>, BuildError>, String> {
    guard(|| Glob::new(text).map(Glob::into_owned))
}

pub fn pattern_of(text: &str) -> Option<String> {
    match build(text) {
        Ok(Ok(g)) => Some(g.verif_program_pattern().to_string()),
        _ => None,
    }
}

/// Candidate-path pool for an expression: witnesses, mutants, random, regex-directed, probes.
pub fn path_pool(t: &mut Tape, e: &Expr, pattern: Option<&str>, scale: usize) -> Vec<String> {
    let es = strip_flags(e);
    let mut out: Vec<String> = Vec::new();
    let mut ws: Vec<String> = Vec::new();
    for mode in [0u8, 1, 2, 0].iter().cycle().take(2 * scale) {
        if let Some(w) = refmatch::witness(&es, t, *mode) {
            ws.push(w);
        }
    }
    for w in &ws {
        out.push(w.clone());
    }
    if !ws.is_empty() {
        for _ in 0..4 * scale {
            let w = t.pick(&ws);
            out.push(mutate_path(t, &w));
        }
    }
    for _ in 0..2 * scale {
        out.push(gen_random_path(t));
    }
    if let Some(p) = pattern {
        for _ in 0..2 * scale {
            if let Some(s) = crate::rxgen::sample(p, t) {
                out.push(s);
            }
        }
    }
    out.push(String::new());
    out.push("/".into());
    out.retain(|p| p.len() <= 120);
    out.sort();
    out.dedup();
    out
}

pub fn short(s: &str) -> String {
    format!("{:?}", s)
}
