//! C14 — Walk entries describe their file consistently.

use crate::ast::*;
use crate::engine::*;
use crate::fsmodel::*;
use crate::gen::*;
use crate::props::c02::{full_glob, gen_shape, Shape};
use crate::props::common::*;
use crate::props::fscommon::*;
use serde::{Deserialize, Serialize};
use serde_json::json;
use std::path::{Path, PathBuf};
use wax::walk::{DepthBehavior, Entry, FileIterator, LinkBehavior, PathExt, WalkBehavior};
use wax::{CandidatePath, Glob, Program};

pub struct C14;

#[derive(Serialize, Deserialize, Clone, Debug)]
pub struct Case {
    pub tree: TreeSpec,
    pub base: Base,
    /// None: Path::walk
    pub glob: Option<(Shape, Expr)>,
    pub min: Option<usize>,
    pub max: Option<usize>,
    pub follow: bool,
}

thread_local! {
    static SECOND_WALK_ENTRIES: std::cell::Cell<u64> = std::cell::Cell::new(0);
    /// entries whose path is not valid UTF-8 (statistics)
    static NON_UTF8_SEEN: std::cell::Cell<u64> = std::cell::Cell::new(0);
}

/// the same path, byte for byte, up to the spelling of separators and `.` components
fn same(a: &Path, b: &Path) -> bool {
    norm(a) == norm(b) && a.components().eq(b.components())
}

/// identities every entry must satisfy; `given`: the directory handed to the walk
fn check_entry(e: &dyn Entry, given: &Path, rooted: bool, follow: bool, what: &str) -> Result<usize, String> {
    let (root, rel) = e.root_relative_paths();
    let path = e.path();
    if path.to_str().is_none() {
        NON_UTF8_SEEN.with(|c| c.set(c.get() + 1));
    }
    if !same(&root.join(rel), path) {
        return Err(format!("{}: root {:?} joined with relative {:?} is not the path {:?}", what, root, rel, path));
    }
    let n = rel.components().count();
    if e.depth() != n {
        return Err(format!(
            "{}: entry {:?} has depth {} but its relative segment {:?} has {} components",
            what, path, e.depth(), rel, n
        ));
    }
    if rooted {
        if !root.as_os_str().is_empty() || rel != path {
            return Err(format!("{}: rooted glob, entry {:?}: root segment {:?} (expected empty), relative {:?}", what, path, root, rel));
        }
    }
    else if !same(root, given) {
        return Err(format!("{}: entry {:?}: root segment {:?} is not the directory given to the walk {:?}", what, path, root, given));
    }
    // file type per link behaviour
    let md = if follow { std::fs::metadata(path) } else { std::fs::symlink_metadata(path) };
    if let Ok(md) = md {
        let ft = e.file_type();
        if ft.is_dir() != md.is_dir() || ft.is_file() != md.is_file() || ft.is_symlink() != md.file_type().is_symlink() {
            return Err(format!("{}: entry {:?}: file_type() {:?} disagrees with the file system ({:?})", what, path, ft, md.file_type()));
        }
    }
    Ok(n)
}

impl Property for C14 {
    type Case = Case;
    fn id(&self) -> &'static str {
        "C14"
    }
    fn rule(&self) -> String {
        "generated trees (with links) x base spellings (absolute, relative, trailing `/`, trailing \
         `/.`, sub-directory, parent, and — sequentially — `.` / `./` with the tree as working directory) x globs (no prefix, invariant prefix of 1-3 components, \
         rooted, `..` prefix) or Path::walk x depth bounds x both link behaviours; every yielded \
         entry — and every entry observed by a pass-through filter, i.e. also residue — is checked \
         against the identities of the statement; one evaluation = one entry; non-trivial = entry \
         depth >= 2 and (non-empty prefix, rooted glob, or a non-canonical base spelling); distinct \
         by (walk, entry path)"
            .into()
    }
    fn assumptions(&self) -> Vec<String> {
        vec!["paths are compared component-wise, byte for byte".into(), "names that are not valid UTF-8 only for regular files (never directories, bases or prefixes)".into()]
    }
    fn budget(&self, tier: Tier) -> (u32, u32) {
        match tier {
            Tier::Quick => (2000, 8),
            Tier::Thorough => (10000, 16),
        }
    }
    fn tape_len(&self) -> usize {
        320
    }
    fn required_counters(&self) -> Vec<&'static str> {
        vec!["entries_checked", "glob_entries", "tree_entries", "residue_entries_observed", "rooted_entries", "prefixed_entries", "dotdot_entries", "noncanonical_base_entries", "depth_bounded_walks", "read_target_walks", "walks_from_current_directory", "entries_of_a_second_walk_of_the_same_glob"]
    }
    fn decode(&self, t: &mut Tape) -> Case {
        let tree = gen_tree(t, &TreeCfg { links: true, non_utf8: true, ..TreeCfg::default() });
        let base = gen_base(t, &tree);
        let glob = if t.chance(60) {
            None
        }
        else {
            let shape = match gen_shape(t, &tree, &base) {
                Shape::Dots(c) if c.iter().any(|x| x == ".") => Shape::Dots(vec!["..".into()]),
                s => s,
            };
            let mut cfg = fs_glob_cfg(&tree);
            cfg.weights = [26, 22, 6, 18, 14, 5, 5, 4];
            Some((shape, gen_expr(t, &cfg)))
        };
        let (min, max) = match t.below(5) {
            0 => (Some(t.below(4)), None),
            1 => (None, Some(t.below(5))),
            2 => {
                let a = t.below(4);
                (Some(a), Some(a + t.below(3)))
            },
            _ => (None, None),
        };
        Case { tree, base, glob, min, max, follow: t.chance(90) }
    }
    fn shrink(&self, c: &Case) -> Vec<Case> {
        let mut out = Vec::new();
        for i in (0..c.tree.nodes.len()).rev() {
            let p = &c.tree.nodes[i].path;
            let refd = matches!(&c.base, Base::Sub(d) if d == p || d.starts_with(&format!("{}/", p)))
                || matches!(&c.glob, Some((Shape::Prefixed(d, _), _)) if d.contains(p.as_str()));
            if refd {
                continue;
            }
            let nodes: Vec<Node> = c.tree.nodes.iter().filter(|n| n.path != *p && !n.path.starts_with(&format!("{}/", p))).cloned().collect();
            out.push(Case { tree: TreeSpec { nodes }, ..c.clone() });
        }
        if c.min.is_some() || c.max.is_some() {
            out.push(Case { min: None, max: None, ..c.clone() });
        }
        if c.follow {
            out.push(Case { follow: false, ..c.clone() });
        }
        if let Some((sh, g)) = &c.glob {
            for e in shrink_expr(g) {
                out.push(Case { glob: Some((sh.clone(), normalize(&e, true))), ..c.clone() });
            }
        }
        out
    }
    fn extra(&self, tier: Tier, st: &mut Stats) -> Result<(), (Case, String)> {
        // walks from the current directory (`.` and `./`): sequential, because the working
        // directory is process-wide
        let n = match tier {
            Tier::Quick => 300u64,
            Tier::Thorough => 4000,
        };
        for k in 0..n {
            let bytes = fixed_tape(k, self.tape_len());
            let mut t = Tape::new(&bytes);
            let mut case = self.decode(&mut t);
            let was_abs = !matches!(case.base, Base::Sub(_) | Base::Parent);
            case.base = Base::Cwd(k % 2 == 1);
            if let Some((shape, _)) = &mut case.glob {
                // shapes that were generated for a base inside / above the tree are regenerated
                // for the tree root (which is what `.` names here)
                if !was_abs {
                    let b2 = fixed_tape(k + 1_000_000, 64);
                    let mut t2 = Tape::new(&b2);
                    *shape = match gen_shape(&mut t2, &case.tree, &Base::Abs) {
                        Shape::Dots(c) if c.iter().any(|x| x == ".") => Shape::Dots(vec!["..".into()]),
                        s => s,
                    };
                }
                if let Shape::Rooted = shape {
                    *shape = Shape::Plain;
                }
            }
            if let Err(m) = self.check(&case, st) {
                return Err((case, m));
            }
        }
        Ok(())
    }
    fn check(&self, case: &Case, st: &mut Stats) -> CheckResult {
        NON_UTF8_SEEN.with(|c| c.set(0));
        let r = check_case(case, st);
        let n = NON_UTF8_SEEN.with(|c| c.get());
        if n > 0 {
            st.add("entries_with_non_utf8_names", n);
        }
        r
    }
}

fn check_case(case: &Case, st: &mut Stats) -> CheckResult {
    {
        let s = match Scratch::create(&case.tree) {
            Ok(s) => s,
            Err(_) => {
                st.count("scratch_failed");
                return Ok(());
            },
        };
        let (base_given, base_abs) = base_paths(&case.base, &s);
        if !base_abs.is_dir() {
            return Ok(());
        }
        let _cwd = enter_cwd(&case.base, &s);
        if matches!(case.base, Base::Cwd(_)) {
            if _cwd.is_none() {
                return Ok(());
            }
            st.count("walks_from_current_directory");
        }
        let depth = match DepthBehavior::bounded(case.min, case.max) {
            Some(d) => d,
            None => DepthBehavior::Unbounded,
        };
        let beh = WalkBehavior { depth, link: if case.follow { LinkBehavior::ReadTarget } else { LinkBehavior::ReadFile } };
        if depth != DepthBehavior::Unbounded {
            st.count("depth_bounded_walks");
        }
        if case.follow {
            st.count("read_target_walks");
        }
        let cap = 40 * (case.tree.nodes.len() + 10);
        let noncanon = !matches!(case.base, Base::Abs | Base::Sub(_) | Base::Parent);
        let follow = case.follow;
        let errors: std::rc::Rc<std::cell::RefCell<Vec<String>>> = Default::default();
        let observed: std::rc::Rc<std::cell::RefCell<usize>> = Default::default();
        match &case.glob {
            None => {
                let given = base_given.clone();
                let r = guard(|| {
                    let mut n = 0usize;
                    let mut checked: Vec<(String, usize)> = Vec::new();
                    for (k, item) in given.walk_with_behavior(beh).enumerate() {
                        if k > cap {
                            return Err(format!("Path::walk from {:?}: more than {} items", given, cap));
                        }
                        if let Ok(e) = item {
                            let d = check_entry(&e, &given, false, follow, "Path::walk")?;
                            let p = e.path().to_path_buf();
                            if e.into_path() != p {
                                return Err(format!("Path::walk: into_path() differs from path() for {:?}", p));
                            }
                            checked.push((norm(&p), d));
                            n += 1;
                        }
                    }
                    let _ = n;
                    Ok(checked)
                });
                match r {
                    Ok(Ok(checked)) => {
                        for (p, d) in checked {
                            st.eval(1);
                            st.count("entries_checked");
                            st.count("tree_entries");
                            if noncanon {
                                st.count("noncanonical_base_entries");
                            }
                            if d >= 2 && noncanon {
                                st.nontrivial(&(format!("{:?}", case.base), p.clone()), || json!({"walk": "Path::walk", "base": format!("{:?}", case.base), "entry": p, "depth": d}));
                            }
                        }
                        Ok(())
                    },
                    Ok(Err(m)) => Err(format!("{} [tree {:?}, base {:?}]", m, case.tree.nodes.iter().map(|n| n.path.as_str()).collect::<Vec<_>>(), case.base)),
                    Err(m) => Err(format!("Path::walk from {:?} panicked: {}", base_given, m)),
                }
            },
            Some((shape, g)) => {
                let root_abs = s.root.to_string_lossy().to_string();
                let expr = full_glob(shape, g, &root_abs);
                if (*shape != Shape::Rooted && starts_rooting_expr(&strip_flags(&expr))) || has_sep_class(&expr) {
                    return Ok(());
                }
                let text = render_text(&expr);
                let glob = match build(&text) {
                    Ok(Ok(g)) => g,
                    _ => {
                        st.count("not_built");
                        return Ok(());
                    },
                };
                {
                    // dot components only where the shape put them deliberately (never follow a
                    // stray `..`, however it is spelled, out of the scratch directory)
                    let deliberate = match shape {
                        Shape::Dots(c) => c.iter().filter(|x| *x == "." || *x == "..").count(),
                        _ => 0,
                    };
                    if prefix_dot_components(&glob) != deliberate {
                        st.count("skipped_incidental_dot_component");
                        return Ok(());
                    }
                }
                let rooted = *shape == Shape::Rooted;
                let given2_for_second_walk: Option<PathBuf> = s.root.parent().map(|p| p.to_path_buf());
                let given = base_given.clone();
                let errs = errors.clone();
                let obs = observed.clone();
                let given2 = given.clone();
                let r = guard(|| {
                    let mut checked: Vec<(String, usize)> = Vec::new();
                    let walk = glob.walk_with_behavior(given.clone(), beh).filter_entry(move |e| {
                        // every entry a filter observes (filtrate and residue) is consistent too
                        *obs.borrow_mut() += 1;
                        if let Err(m) = check_entry(e, &given2, rooted, follow, "entry observed by filter_entry") {
                            errs.borrow_mut().push(m);
                        }
                        None
                    });
                    for (k, item) in walk.enumerate() {
                        if k > cap {
                            return Err(format!("glob `{}`: more than {} items", text, cap));
                        }
                        if let Ok(e) = item {
                            let what = format!("glob `{}` walked from {:?}", text, given);
                            let d = check_entry(&e, &given, rooted, follow, &what)?;
                            let (_, rel) = e.root_relative_paths();
                            let rel_text = rel.to_string_lossy().to_string();
                            let complete = e.matched().complete().to_string();
                            if complete != rel_text {
                                return Err(format!("{}: entry {:?}: matched().complete() = {:?} but the relative segment is {:?}", what, e.path(), complete, rel_text));
                            }
                            if !glob.is_match(rel) {
                                return Err(format!("{}: entry {:?}: the glob does not match its relative segment {:?}", what, e.path(), rel_text));
                            }
                            if e.to_candidate_path().as_ref() != complete {
                                return Err(format!("{}: entry {:?}: to_candidate_path() = {:?} differs from matched().complete()", what, e.path(), e.to_candidate_path().as_ref()));
                            }
                            let c = CandidatePath::from(rel);
                            let m2 = match glob.matched(&c) {
                                Some(m) => m,
                                None => return Err(format!("{}: entry {:?}: glob.matched(relative segment) is None", what, e.path())),
                            };
                            let ncap = glob.captures().count();
                            for i in 0..=ncap + 1 {
                                if e.matched().get(i) != m2.get(i) {
                                    return Err(format!(
                                        "{}: entry {:?}: matched().get({}) = {:?} but matching the relative segment gives {:?}",
                                        what, e.path(), i, e.matched().get(i), m2.get(i)
                                    ));
                                }
                            }
                            let p = e.path().to_path_buf();
                            if e.into_path() != p {
                                return Err(format!("{}: into_path() differs from path() for {:?}", what, p));
                            }
                            checked.push((norm(&p), d));
                        }
                    }
                    // the same `Glob` value walked again, from another directory (the parent of the
                    // tree root, which holds `t`, `s`, `u`): what a walk reports must depend on the
                    // directory given to *this* walk, not on an earlier one
                    if !rooted && !matches!(shape, Shape::Dots(_)) && !matches!(case.base, Base::Cwd(_)) {
                        if let Some(other) = given2_for_second_walk.as_ref() {
                            let what = format!("glob `{}` walked a second time, now from {:?} (first from {:?})", text, other, given);
                            for (k, item) in glob.walk_with_behavior(other.clone(), beh).enumerate() {
                                if k > cap {
                                    break;
                                }
                                if let Ok(e) = item {
                                    check_entry(&e, other, false, follow, &what)?;
                                    SECOND_WALK_ENTRIES.with(|c| c.set(c.get() + 1));
                                }
                            }
                        }
                    }
                    Ok(checked)
                });
                let n2 = SECOND_WALK_ENTRIES.with(|c| c.replace(0));
                if n2 > 0 {
                    st.add("entries_of_a_second_walk_of_the_same_glob", n2);
                }
                let ctx = || format!(" [tree {:?}, base {:?}, shape {:?}]", case.tree.nodes.iter().map(|n| n.path.as_str()).collect::<Vec<_>>(), case.base, shape);
                match r {
                    Ok(Ok(checked)) => {
                        if let Some(m) = errors.borrow().first() {
                            return Err(format!("glob `{}`: {}{}", text, m, ctx()));
                        }
                        st.add("residue_entries_observed", (*observed.borrow() as u64).saturating_sub(checked.len() as u64));
                        for (p, d) in checked {
                            st.eval(1);
                            st.count("entries_checked");
                            st.count("glob_entries");
                            match shape {
                                Shape::Rooted => st.count("rooted_entries"),
                                Shape::Prefixed(..) => st.count("prefixed_entries"),
                                Shape::Dots(_) => st.count("dotdot_entries"),
                                _ => {},
                            }
                            if noncanon {
                                st.count("noncanonical_base_entries");
                            }
                            if d >= 2 && (noncanon || !matches!(shape, Shape::Plain)) {
                                st.nontrivial(&(text.clone(), p.clone()), || json!({"glob": text, "base": format!("{:?}", case.base), "entry": p, "depth": d}));
                            }
                        }
                        Ok(())
                    },
                    Ok(Err(m)) => Err(format!("{}{}", m, ctx())),
                    Err(m) => Err(format!("glob `{}` walk panicked: {}{}", text, m, ctx())),
                }
            },
        }
    }
}

#[allow(dead_code)]
fn _unused(_: PathBuf, _: Glob<'static>) {}
