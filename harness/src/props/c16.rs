//! C16 — Walk filters compose monotonically and independently of order.
//!
//! Stateful / model-based: the history is a generated stack of `not` and `filter_entry` layers
//! (repeats allowed) applied to a generated tree, plus permutations of the same layers.  Model:
//! verdict lattice keep < File < Tree per entry, joined over the layers.

use crate::engine::*;
use crate::fsmodel::*;
use crate::gen::*;
use crate::props::c13::{gen_under, referenced, shrink_tree};
use crate::props::fscommon::*;
use crate::props::stacks::*;
use serde::{Deserialize, Serialize};
use serde_json::json;
use std::collections::{BTreeMap, BTreeSet};
use wax::walk::WalkBehavior;

pub struct C16;

#[derive(Serialize, Deserialize, Clone, Debug)]
pub struct Case {
    pub tree: TreeSpec,
    pub base: Base,
    pub under: Under,
    pub layers: Vec<Layer>,
    /// permutations of the layer indices (the identity is always run first)
    pub perms: Vec<Vec<usize>>,
    /// walk with `LinkBehavior::ReadTarget` (link errors are the only error items tolerated)
    #[serde(default)]
    pub follow: bool,
    /// a maximum depth (from the directory given to the walk) for the underlying walk
    #[serde(default)]
    pub max_depth: Option<usize>,
}

fn gen_perm(t: &mut Tape, n: usize) -> Vec<usize> {
    let mut v: Vec<usize> = (0..n).collect();
    // Fisher–Yates driven by the tape
    for i in (1..n).rev() {
        let j = t.below(i + 1);
        v.swap(i, j);
    }
    v
}

impl Property for C16 {
    type Case = Case;
    fn id(&self) -> &'static str {
        "C16"
    }
    fn rule(&self) -> String {
        "generated trees x stacks of 1-5 layers (`not(pattern)` / `filter_entry(table)` with File and \
         Tree verdicts on existing entries, repeated layers allowed) over Path::walk and Glob::walk, \
         each run in the generated order and in 2-4 tape-driven permutations; one evaluation = one \
         stack order; checked per order: yielded set == entries every layer keeps among those not \
         beneath a discarded tree (model), and every user filter's call log == exactly the fed \
         entries, each once; non-trivial = >= 2 layers that disagree on some entry and >= 2 \
         distinct orders; distinct by (tree, stack, order)"
            .into()
    }
    fn assumptions(&self) -> Vec<String> {
        vec![
            "`not` layers cannot be observed directly; their effect is observed through the probe and table layers around them".into(),
            "the model is order-free by construction, so equality with it in every order implies order independence".into(),
        ]
    }
    fn budget(&self, tier: Tier) -> (u32, u32) {
        match tier {
            Tier::Quick => (1500, 8),
            Tier::Thorough => (9000, 16),
        }
    }
    fn tape_len(&self) -> usize {
        448
    }
    fn required_counters(&self) -> Vec<&'static str> {
        vec!["orders_run", "stacks_with_disagreeing_layers", "tree_then_file_on_same_directory", "two_tree_verdicts_same_directory", "upstream_discarded_entry_observed_downstream", "distinct_orders_2plus", "read_target_runs", "depth_bounded_runs"]
    }
    fn decode(&self, t: &mut Tape) -> Case {
        let tree = gen_tree(t, &TreeCfg { links: true, ..TreeCfg::default() });
        let base = if t.chance(40) { gen_base(t, &tree) } else { Base::Abs };
        let under = gen_under(t, &tree, &base);
        let mut layers = rebase_layers(gen_layers(t, &tree, 1), &base);
        // bias: a second layer that talks about the same entries as the first
        if layers.len() < MAX_LAYERS && t.chance(120) {
            let l = layers[t.below(layers.len())].clone();
            let l2 = match (&l, t.below(3)) {
                (Layer::Table(tb), 0) => Layer::Table(tb.iter().map(|(p, v)| (p.clone(), if *v == Verdict::Tree { Verdict::File } else { Verdict::Tree })).collect()),
                (Layer::Table(tb), 1) => Layer::Table(tb.clone()),
                (Layer::Table(tb), _) => match tb.first() {
                    Some((p, _)) if !p.is_empty() => {
                        let mut e = literal_prefix(p, false);
                        e.push(crate::ast::Tok::Tree { lead: true, trail: false });
                        Layer::Not(e)
                    },
                    _ => l.clone(),
                },
                _ => l.clone(),
            };
            layers.push(l2);
        }
        let n = layers.len();
        let k = 2 + t.below(3);
        let perms = (0..k).map(|_| gen_perm(t, n)).collect();
        let follow = t.chance(64);
        let max_depth = if t.chance(56) { Some(1 + t.below(4)) } else { None };
        Case { tree, base, under, layers, perms, follow, max_depth }
    }
    fn shrink(&self, c: &Case) -> Vec<Case> {
        let mut out = Vec::new();
        for tr in shrink_tree(&c.tree, &|p| referenced(&c.base, &c.under, p)) {
            out.push(Case { tree: tr, ..c.clone() });
        }
        if c.perms.len() > 1 {
            for i in 0..c.perms.len() {
                let mut p = c.perms.clone();
                p.remove(i);
                out.push(Case { perms: p, ..c.clone() });
            }
        }
        for i in 0..c.layers.len() {
            let mut l = c.layers.clone();
            l.remove(i);
            let n = l.len();
            out.push(Case { layers: l, perms: vec![(0..n).rev().collect()], ..c.clone() });
        }
        for (i, l) in c.layers.iter().enumerate() {
            if let Layer::Table(t) = l {
                for k in 0..t.len() {
                    let mut t2 = t.clone();
                    t2.remove(k);
                    let mut ls = c.layers.clone();
                    ls[i] = Layer::Table(t2);
                    out.push(Case { layers: ls, ..c.clone() });
                }
            }
        }
        if !matches!(c.under, Under::Path) {
            out.push(Case { under: Under::Path, ..c.clone() });
        }
        if c.max_depth.is_some() {
            out.push(Case { max_depth: None, ..c.clone() });
        }
        out
    }
    fn check(&self, case: &Case, st: &mut Stats) -> CheckResult {
        let layers_rt = match guard(|| prepare_layers(&case.layers, false)) {
            Ok(Ok(l)) => l,
            Ok(Err(_)) => {
                st.count("layer_not_built");
                return Ok(());
            },
            Err(_) => {
                st.panicked += 1;
                return Ok(());
            },
        };
        let glob_rt = match guard(|| prepare_glob(&case.under)) {
            Ok(Some(g)) => g,
            _ => {
                st.count("underlying_not_built");
                return Ok(());
            },
        };
        let s = match Scratch::create(&case.tree) {
            Ok(s) => s,
            Err(_) => {
                st.count("scratch_failed");
                return Ok(());
            },
        };
        let (base_given, base_abs) = base_paths(&case.base, &s);
        if !base_abs.is_dir() {
            return Ok(());
        }
        if let Some(g) = &glob_rt {
            if (!g.prefix.is_empty() && !base_abs.join(&g.prefix).is_dir()) || g.prefix.split('/').any(|c| c == "." || c == "..") {
                st.count("skipped_prefix");
                return Ok(());
            }
            let mut p = base_abs.clone();
            for c in g.prefix.split('/').filter(|c| !c.is_empty()) {
                p = p.join(c);
                if std::fs::symlink_metadata(&p).map(|m| m.file_type().is_symlink()).unwrap_or(false) {
                    st.count("skipped_prefix");
                    return Ok(());
                }
            }
        }
        // a depth bound counts components below the directory given to the walk (C15), the
        // invariant prefix of a glob included
        let entries: Vec<(String, bool)> = underlying_entries(&base_abs, glob_rt.as_ref(), case.follow, None)
            .into_iter()
            .filter(|(r, _)| case.max_depth.map_or(true, |m| r.split('/').filter(|c| !c.is_empty()).count() <= m))
            .collect();
        let mut beh = WalkBehavior { link: if case.follow { wax::walk::LinkBehavior::ReadTarget } else { wax::walk::LinkBehavior::ReadFile }, ..WalkBehavior::default() };
        if let Some(m) = case.max_depth {
            beh.depth = wax::walk::DepthMax(m).into();
            st.count("depth_bounded_runs");
        }
        if case.follow {
            st.count("read_target_runs");
        }
        // under ReadTarget re-entrant and dangling links are error items also on a fault-free tree
        let link_errors: BTreeSet<String> = if case.follow {
            let (start, prefix) = match &glob_rt {
                Some(g) if !g.prefix.is_empty() => (base_abs.join(&g.prefix), g.prefix.clone()),
                _ => (base_abs.clone(), String::new()),
            };
            ref_walk(&start, true)
                .into_iter()
                .filter_map(|i| match i {
                    RefItem::Error { rel, .. } => {
                        let mut p = base_given.clone();
                        if !prefix.is_empty() {
                            p = p.join(&prefix);
                        }
                        if !rel.is_empty() {
                            p = p.join(&rel);
                        }
                        Some(norm(&p))
                    },
                    _ => None,
                })
                .collect()
        }
        else {
            BTreeSet::new()
        };
        let foreign_error = |items: &[crate::props::c03::Item]| -> bool {
            items.iter().any(|i| match &i.seen {
                Seen::Err { path, .. } => !path.as_ref().map_or(false, |p| link_errors.contains(p)),
                _ => false,
            })
        };
        // the glob's own pruning is observed from a bare run (one probe, no layers) and validated
        let observed = match &glob_rt {
            None => None,
            Some(g) => {
                let cap0 = 20 * (entries.len() + 10);
                match guard(|| run_stack(&base_given, &case.under, &[], beh, cap0)) {
                    Ok(Ok(Some(o))) => {
                        if o.capped || foreign_error(&o.items) {
                            return Err(format!("glob `{}`: the bare walk does not terminate or yields an error item on a fault-free tree", g.glob));
                        }
                        let fed: std::collections::BTreeSet<String> = o.logs.last().unwrap().iter().cloned().collect();
                        if fed.len() != o.logs.last().unwrap().len() {
                            return Err(format!("glob `{}`: the bare walk feeds an entry more than once: {:?}", g.glob, o.logs.last().unwrap()));
                        }
                        let yielded = o.items.iter().filter_map(|i| i.rel.clone()).collect();
                        match observe(&entries, g, fed, yielded, false) {
                            Ok(ob) => Some(ob),
                            Err(m) => return Err(format!("{} [tree {:?}]", m, case.tree.nodes.iter().map(|n| n.path.as_str()).collect::<Vec<_>>())),
                        }
                    },
                    Ok(Ok(None)) => return Ok(()),
                    Ok(Err(_)) => return Ok(()),
                    Err(msg) => return Err(format!("glob `{}`: the bare walk panicked: {}", g.glob, msg)),
                }
            },
        };
        let m = model_with(&entries, glob_rt.as_ref(), observed.as_ref(), &layers_rt);
        if let Some(msg) = unsound_tree_verdict(&entries, &layers_rt) {
            return Err(format!("{} [tree {:?}]", msg, case.tree.nodes.iter().map(|n| n.path.as_str()).collect::<Vec<_>>()));
        }
        st.count("negation_tree_verdicts_validated");
        let fed: BTreeMap<String, usize> = m.fed.keys().map(|k| (k.clone(), 1)).collect();
        // statistics
        let n = layers_rt.len();
        let mut disagree = false;
        let mut tree_then_file = false;
        let mut upstream_observed = false;
        for (rel, is_dir) in m.fed.iter() {
            let vs: Vec<Verdict> = layers_rt.iter().map(|l| layer_verdict(l, rel)).collect();
            if vs.iter().any(|v| *v == Verdict::Keep) && vs.iter().any(|v| *v != Verdict::Keep) {
                disagree = true;
            }
            if *is_dir && vs.contains(&Verdict::Tree) && vs.contains(&Verdict::File) {
                disagree = true;
                tree_then_file = true;
            }
            if vs.iter().filter(|v| **v != Verdict::Keep).count() >= 1 && n >= 2 {
                upstream_observed = true;
            }
        }
        if disagree {
            st.count("stacks_with_disagreeing_layers");
        }
        if tree_then_file {
            st.count("tree_then_file_on_same_directory");
        }
        if m.double_tree > 0 {
            st.count("two_tree_verdicts_same_directory");
        }
        if upstream_observed {
            st.count("upstream_discarded_entry_observed_downstream");
        }
        let mut orders: Vec<Vec<usize>> = vec![(0..n).collect()];
        for p in &case.perms {
            if p.len() == n && {
                let mut q = p.clone();
                q.sort();
                q == (0..n).collect::<Vec<_>>()
            } && !orders.contains(p)
            {
                orders.push(p.clone());
            }
        }
        if orders.len() >= 2 {
            st.count("distinct_orders_2plus");
        }
        let cap = 20 * (entries.len() + 10);
        let mut first_yield: Option<BTreeSet<String>> = None;
        for order in &orders {
            let stack: Vec<Layer> = order.iter().map(|i| case.layers[*i].clone()).collect();
            let run = guard(|| run_stack(&base_given, &case.under, &stack, beh, cap));
            let out = match run {
                Ok(Ok(Some(o))) => o,
                Ok(Ok(None)) => return Ok(()),
                Ok(Err(e)) => return Err(format!("stack {:?}: a layer that builds as a pattern is refused: {}", stack, e)),
                Err(msg) => return Err(format!("stack {:?}: the walk panicked: {}", stack, msg)),
            };
            st.count("orders_run");
            st.eval(1);
            let describe = || {
                format!(
                    "walk {} from {:?}, layers {:?} in order {:?}, tree {:?}",
                    match &glob_rt {
                        None => "Path::walk".to_string(),
                        Some(g) => format!("Glob(`{}`)", g.glob),
                    },
                    case.base,
                    case.layers,
                    order,
                    case.tree.nodes.iter().map(|n| n.path.as_str()).collect::<Vec<_>>()
                )
            };
            if out.capped {
                return Err(format!("{}: the walk did not terminate within {} items", describe(), cap));
            }
            if foreign_error(&out.items) {
                return Err(format!("{}: error item on a fault-free tree", describe()));
            }
            let yielded: BTreeSet<String> = out.items.iter().filter_map(|i| i.rel.clone()).collect();
            if yielded != m.yielded || out.items.iter().filter(|i| i.rel.is_some()).count() != m.yielded.len() {
                let lost: Vec<&String> = m.yielded.difference(&yielded).collect();
                let back: Vec<&String> = yielded.difference(&m.yielded).collect();
                return Err(format!(
                    "{}: yields differ from `every layer keeps it and it is not beneath a discarded tree` — lost {:?}, brought back {:?} (discarded trees {:?}){}",
                    describe(),
                    lost,
                    back,
                    m.discarded,
                    match &first_yield {
                        Some(f) if *f != yielded => " [and differs from the first order]",
                        _ => "",
                    }
                ));
            }
            if first_yield.is_none() {
                first_yield = Some(yielded);
            }
            // every user filter (table layers and the terminal probe) sees exactly the fed
            // entries, each once — including entries an upstream layer already discarded
            for (pos, log) in out.logs.iter().enumerate() {
                let is_user = pos == stack.len() || matches!(stack[pos], Layer::Table(_));
                if !is_user {
                    continue;
                }
                let mut seen: BTreeMap<String, usize> = BTreeMap::new();
                for r in log {
                    *seen.entry(r.clone()).or_insert(0) += 1;
                }
                if seen != fed {
                    let missing: Vec<&String> = fed.keys().filter(|k| !seen.contains_key(*k)).collect();
                    let beneath: Vec<&String> = seen.keys().filter(|k| !fed.contains_key(*k)).collect();
                    let twice: Vec<&String> = seen.iter().filter(|(_, n)| **n > 1).map(|x| x.0).collect();
                    return Err(format!(
                        "{}: the filter at position {} observed a different set of entries than `everything not beneath a discarded tree, once` — not observed {:?}, observed beneath a discarded tree {:?}, observed twice {:?} (discarded trees {:?})",
                        describe(), pos, missing, beneath, twice, m.discarded
                    ));
                }
            }
            if disagree && orders.len() >= 2 {
                let key = format!("{:?}|{:?}|{:?}|{:?}", case.tree, case.under, case.layers, order);
                st.nontrivial(&key, || {
                    json!({"tree": case.tree.nodes.iter().map(|n| n.path.clone()).collect::<Vec<_>>(), "layers": format!("{:?}", case.layers),
                           "order": order, "yielded": m.yielded, "discarded_trees": m.discarded})
                });
            }
        }
        Ok(())
    }
}
