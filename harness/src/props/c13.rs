//! C13 — Discarded directory trees are never produced, and only they are skipped.
//!
//! oracle: pruned-tree model over an independent traversal; a terminal pass-through probe logs
//! what reaches the consumer side of the stack; unreadable-directory tripwires (unprivileged run)
//! make a cancellation that was not issued observable as an error item.

use crate::engine::*;
use crate::fsmodel::*;
use crate::gen::*;
use crate::props::c02::{gen_shape, Shape};
use crate::props::fscommon::*;
use crate::props::stacks::*;
use serde::{Deserialize, Serialize};
use serde_json::json;
use std::collections::BTreeMap;
use wax::walk::WalkBehavior;
use wax::Program;

pub struct C13;

#[derive(Serialize, Deserialize, Clone, Debug)]
pub struct Case {
    pub tree: TreeSpec,
    pub base: Base,
    pub under: Under,
    pub layers: Vec<Layer>,
    pub tripwire: bool,
    /// walk with `LinkBehavior::ReadTarget`: linked directories are directories (descended into,
    /// and discardable as trees); re-entrant and dangling links are error items
    #[serde(default)]
    pub follow: bool,
    /// a maximum depth (from the directory given to the walk) for the underlying walk
    #[serde(default)]
    pub max_depth: Option<usize>,
}

pub fn gen_under(t: &mut Tape, tree: &TreeSpec, base: &Base) -> Under {
    if t.chance(120) {
        Under::Path
    }
    else {
        let shape = match gen_shape(t, tree, base) {
            Shape::Rooted | Shape::Dots(_) => Shape::Plain,
            s => s,
        };
        let mut cfg = fs_glob_cfg(tree);
        // pruning globs: components that select some directories only
        cfg.weights = [34, 26, 4, 12, 8, 5, 6, 5];
        let glob = crate::gen::gen_expr(t, &cfg);
        Under::Glob { shape, glob }
    }
}

pub fn shrink_tree(tree: &TreeSpec, keep: &dyn Fn(&str) -> bool) -> Vec<TreeSpec> {
    let mut out = Vec::new();
    for i in (0..tree.nodes.len()).rev() {
        let p = &tree.nodes[i].path;
        if keep(p) {
            continue;
        }
        let nodes: Vec<Node> = tree.nodes.iter().filter(|n| n.path != *p && !n.path.starts_with(&format!("{}/", p))).cloned().collect();
        out.push(TreeSpec { nodes });
    }
    out
}

pub fn referenced(base: &Base, under: &Under, p: &str) -> bool {
    let in_base = matches!(base, Base::Sub(d) if d == p || d.starts_with(&format!("{}/", p)));
    let in_shape = matches!(under, Under::Glob { shape: Shape::Prefixed(d, _), .. } if d.contains(p));
    in_base || in_shape
}

impl Property for C13 {
    type Case = Case;
    fn id(&self) -> &'static str {
        "C13"
    }
    fn rule(&self) -> String {
        "generated trees x stacks: underlying walk (Path::walk or a pruning Glob::walk with and \
         without invariant prefix) followed by 0-5 layers, each `not(pattern)` or \
         `filter_entry(table)` with File / Tree verdicts placed on existing entries (files, \
         directories, first / last children, any depth, the walk root), terminated by a \
         pass-through probe; in half of the cases every directory the model discards as a tree is \
         made unreadable (tripwire); one evaluation = one stack run compared with the pruned-tree \
         model; non-trivial = a directory with >= 1 descendant is discarded as a tree; distinct by \
         (tree, stack)"
            .into()
    }
    fn assumptions(&self) -> Vec<String> {
        vec![
            "whether the kernel was asked to list a discarded directory is not observable through the API (walkdir opens a directory before yielding it); decided is what the statement says: nothing beneath a discarded tree is produced, and only that is skipped".into(),
            "tripwires need an unprivileged process: as root the check re-executes itself as uid nobody".into(),
        ]
    }
    fn budget(&self, tier: Tier) -> (u32, u32) {
        match tier {
            Tier::Quick => (2000, 8),
            Tier::Thorough => (12000, 16),
        }
    }
    fn tape_len(&self) -> usize {
        384
    }
    fn required_counters(&self) -> Vec<&'static str> {
        vec!["runs", "depth_bounded_runs", "tree_discard_by_negation", "tree_discard_demanded_by_own_reading", "glob_component_discard_required", "read_target_runs", "tree_verdict_on_followed_link", "tree_verdict_on_link", "tree_discard_with_descendants", "two_tree_verdicts_same_directory", "tree_verdict_on_file", "tripwires_armed", "discard_on_walk_root", "file_verdict_on_directory"]
    }
    fn decode(&self, t: &mut Tape) -> Case {
        let tree = gen_tree(t, &TreeCfg { links: true, ..TreeCfg::default() });
        let base = if t.chance(50) { gen_base(t, &tree) } else { Base::Abs };
        let under = gen_under(t, &tree, &base);
        let layers = rebase_layers(gen_layers(t, &tree, 0), &base);
        let (tripwire, follow) = (t.chance(128), t.chance(70));
        let max_depth = if t.chance(56) { Some(1 + t.below(4)) } else { None };
        Case { tree, base, under, layers, tripwire, follow, max_depth }
    }
    fn directed(&self) -> Vec<Case> {
        let d = |p: &str| Node { path: p.into(), kind: Kind::Dir, unreadable: false };
        let f = |p: &str| Node { path: p.into(), kind: Kind::File, unreadable: false };
        let tree = TreeSpec { nodes: vec![d("a"), d("a/x"), f("a/x/g"), f("a/h"), f("a/i"), f("b")] };
        vec![Case {
            tree,
            base: Base::Abs,
            under: Under::Path,
            layers: vec![Layer::Table(vec![("a/x".into(), Verdict::Tree)]), Layer::Table(vec![("a/x".into(), Verdict::Tree)])],
            tripwire: false,
            follow: false,
            max_depth: None,
        }]
    }
    fn shrink(&self, c: &Case) -> Vec<Case> {
        let mut out = Vec::new();
        for tr in shrink_tree(&c.tree, &|p| referenced(&c.base, &c.under, p)) {
            out.push(Case { tree: tr, ..c.clone() });
        }
        for i in 0..c.layers.len() {
            let mut l = c.layers.clone();
            l.remove(i);
            out.push(Case { layers: l, ..c.clone() });
        }
        for (i, l) in c.layers.iter().enumerate() {
            if let Layer::Table(t) = l {
                for k in 0..t.len() {
                    let mut t2 = t.clone();
                    t2.remove(k);
                    let mut ls = c.layers.clone();
                    ls[i] = Layer::Table(t2);
                    out.push(Case { layers: ls, ..c.clone() });
                }
            }
        }
        if c.tripwire {
            out.push(Case { tripwire: false, ..c.clone() });
        }
        if c.max_depth.is_some() {
            out.push(Case { max_depth: None, ..c.clone() });
        }
        if !matches!(c.under, Under::Path) {
            out.push(Case { under: Under::Path, ..c.clone() });
        }
        if c.base != Base::Abs && !matches!(c.base, Base::Sub(_)) {
            out.push(Case { base: Base::Abs, ..c.clone() });
        }
        out
    }
    fn check(&self, case: &Case, st: &mut Stats) -> CheckResult {
        let layers_rt = match guard(|| prepare_layers(&case.layers, true)) {
            Ok(Ok(l)) => l,
            Ok(Err(_)) => {
                st.count("layer_not_built");
                return Ok(());
            },
            Err(_) => {
                st.panicked += 1;
                return Ok(());
            },
        };
        let glob_rt = match guard(|| prepare_glob(&case.under)) {
            Ok(Some(g)) => g,
            Ok(None) => {
                st.count("underlying_not_built");
                return Ok(());
            },
            Err(_) => {
                st.panicked += 1;
                return Ok(());
            },
        };
        let mut s = match Scratch::create(&case.tree) {
            Ok(s) => s,
            Err(_) => {
                st.count("scratch_failed");
                return Ok(());
            },
        };
        let (base_given, base_abs) = base_paths(&case.base, &s);
        if !base_abs.is_dir() {
            st.count("base_missing");
            return Ok(());
        }
        if let Some(g) = &glob_rt {
            if !g.prefix.is_empty() && !base_abs.join(&g.prefix).is_dir() {
                st.count("prefix_not_a_directory");
                return Ok(());
            }
            if g.prefix.split('/').any(|c| c == "." || c == "..") {
                st.count("skipped_dot_prefix");
                return Ok(());
            }
            let mut p = base_abs.clone();
            for c in g.prefix.split('/').filter(|c| !c.is_empty()) {
                p = p.join(c);
                if std::fs::symlink_metadata(&p).map(|m| m.file_type().is_symlink()).unwrap_or(false) {
                    st.count("skipped_link_in_prefix");
                    return Ok(());
                }
            }
        }
        // a depth bound counts components below the directory given to the walk (C15), the
        // invariant prefix of a glob included
        let entries: Vec<(String, bool)> = underlying_entries(&base_abs, glob_rt.as_ref(), case.follow, None)
            .into_iter()
            .filter(|(r, _)| case.max_depth.map_or(true, |m| r.split('/').filter(|c| !c.is_empty()).count() <= m))
            .collect();
        let mut beh = WalkBehavior { link: if case.follow { wax::walk::LinkBehavior::ReadTarget } else { wax::walk::LinkBehavior::ReadFile }, ..WalkBehavior::default() };
        if let Some(m) = case.max_depth {
            beh.depth = wax::walk::DepthMax(m).into();
            st.count("depth_bounded_runs");
        }
        // under ReadTarget re-entrant and dangling links are error items also on a fault-free tree
        let link_errors: std::collections::BTreeSet<String> = if case.follow {
            let (start, prefix) = match &glob_rt {
                Some(g) if !g.prefix.is_empty() => (base_abs.join(&g.prefix), g.prefix.clone()),
                _ => (base_abs.clone(), String::new()),
            };
            ref_walk(&start, true)
                .into_iter()
                .filter_map(|i| match i {
                    RefItem::Error { rel, .. } => Some(norm(&if rel.is_empty() && prefix.is_empty() {
                        base_given.clone()
                    }
                    else if prefix.is_empty() {
                        base_given.join(&rel)
                    }
                    else if rel.is_empty() {
                        base_given.join(&prefix)
                    }
                    else {
                        base_given.join(&prefix).join(&rel)
                    })),
                    _ => None,
                })
                .collect()
        }
        else {
            Default::default()
        };
        if case.follow {
            st.count("read_target_runs");
        }
        // the glob's own pruning is observed from a bare run (one probe, no layers) and validated
        let observed = match &glob_rt {
            None => None,
            Some(g) => {
                let cap0 = 20 * (entries.len() + 10);
                match guard(|| run_stack(&base_given, &case.under, &[], beh, cap0)) {
                    Ok(Ok(Some(o))) => {
                        if o.capped || o.items.iter().any(|i| match &i.seen {
                            Seen::Err { path, .. } => !path.as_ref().map_or(false, |p| link_errors.contains(p)),
                            _ => false,
                        }) {
                            return Err(format!("glob `{}`: the bare walk does not terminate or yields an error item on a fault-free tree", g.glob));
                        }
                        let fed: std::collections::BTreeSet<String> = o.logs.last().unwrap().iter().cloned().collect();
                        if fed.len() != o.logs.last().unwrap().len() {
                            return Err(format!("glob `{}`: the bare walk feeds an entry more than once: {:?}", g.glob, o.logs.last().unwrap()));
                        }
                        let yielded = o.items.iter().filter_map(|i| i.rel.clone()).collect();
                        match observe(&entries, g, fed, yielded, true) {
                            Ok(ob) => Some(ob),
                            Err(m) => return Err(format!("{} [tree {:?}]", m, case.tree.nodes.iter().map(|n| n.path.as_str()).collect::<Vec<_>>())),
                        }
                    },
                    Ok(Ok(None)) => return Ok(()),
                    Ok(Err(_)) => return Ok(()),
                    Err(msg) => return Err(format!("glob `{}`: the bare walk panicked: {}", g.glob, msg)),
                }
            },
        };
        if let Some(g) = &glob_rt {
            // how often the first sentence's glob clause is exercised: a directory with
            // descendants whose own name a plain component rejects
            if entries.iter().any(|(rel, is_dir)| {
                *is_dir
                    && component_cannot_match(g, rel).is_some()
                    && entries.iter().any(|(d, _)| d.starts_with(&format!("{}/", rel)))
            }) {
                st.count("glob_component_discard_required");
            }
        }
        let m = model_with(&entries, glob_rt.as_ref(), observed.as_ref(), &layers_rt);
        if let Some(msg) = unsound_tree_verdict(&entries, &layers_rt) {
            return Err(format!("{} [tree {:?}]", msg, case.tree.nodes.iter().map(|n| n.path.as_str()).collect::<Vec<_>>()));
        }
        st.count("negation_tree_verdicts_validated");
        // tripwires
        let unprivileged = unsafe { libc::geteuid() } != 0;
        let mut armed = 0;
        // (not under ReadTarget: a directory reached through a link is also reachable directly)
        if case.tripwire && unprivileged && !case.follow {
            for d in &m.discarded {
                if d.is_empty() {
                    continue;
                }
                // path of the directory inside the tree root
                let abs = base_abs.join(d);
                if let Ok(rel) = abs.strip_prefix(&s.root) {
                    let rel = rel.to_string_lossy().to_string();
                    if !rel.is_empty() && s.make_unreadable(&rel).is_ok() {
                        armed += 1;
                    }
                }
            }
        }
        if armed > 0 {
            st.add("tripwires_armed", armed);
        }
        let cap = 20 * (entries.len() + 10);
        let run = guard(|| run_stack(&base_given, &case.under, &case.layers, beh, cap));
        let out = match run {
            Ok(Ok(Some(o))) => o,
            Ok(Ok(None)) => {
                st.count("underlying_not_built");
                return Ok(());
            },
            Ok(Err(e)) => return Err(format!("stack {:?}: a layer that builds as a pattern is refused: {}", case.layers, e)),
            Err(msg) => return Err(format!("stack {:?} over {:?}: the walk panicked: {}", case.layers, case.under, msg)),
        };
        st.count("runs");
        st.eval(1);
        if out.capped {
            return Err(format!("stack {:?}: the walk did not terminate within {} items", case.layers, cap));
        }
        // statistics
        let with_desc = m.discarded.iter().any(|d| entries.iter().any(|(r, _)| if d.is_empty() { !r.is_empty() } else { r.starts_with(&format!("{}/", d)) }));
        if with_desc {
            st.count("tree_discard_with_descendants");
        }
        if m.double_tree > 0 {
            st.count("two_tree_verdicts_same_directory");
        }
        if layers_rt.iter().any(|l| matches!(l.layer, Layer::Not(_) | Layer::NotAny(_)) && m.fed.iter().any(|(r, d)| *d && layer_verdict(l, r) == Verdict::Tree)) {
            st.count("tree_discard_by_negation");
        }
        if layers_rt.iter().any(|l| m.fed.iter().any(|(r, d)| *d && l.exhaustive_alternatives.iter().any(|g| g.is_match(r.as_str())))) {
            st.count("tree_discard_demanded_by_own_reading");
        }
        if m.tree_on_file > 0 {
            st.count("tree_verdict_on_file");
        }
        {
            // a tree verdict (from a layer or from glob pruning) on a symbolic link to a directory
            let links: Vec<&str> = case.tree.nodes.iter().filter(|n| matches!(&n.kind, Kind::Link(t) if t.is_empty() || case.tree.nodes.iter().any(|m| m.path == *t && m.kind == Kind::Dir))).map(|n| n.path.as_str()).collect();
            let hit = m.fed.keys().any(|rel| {
                links.iter().any(|l| rel == l || rel.ends_with(&format!("/{}", l)))
                    && (layers_rt.iter().any(|l| layer_verdict(l, rel) == Verdict::Tree)
                        || glob_rt.as_ref().map_or(false, |g| glob_verdict(g, rel) == Verdict::Tree))
            });
            if hit {
                st.count("tree_verdict_on_link");
                if case.follow {
                    st.count("tree_verdict_on_followed_link");
                }
            }
        }
        if m.pruned_by_glob > 0 {
            st.count("pruned_by_glob");
        }
        if m.discarded.contains("") {
            st.count("discard_on_walk_root");
        }
        if layers_rt.iter().any(|l| m.fed.iter().any(|(r, d)| *d && layer_verdict(l, r) == Verdict::File)) {
            st.count("file_verdict_on_directory");
        }
        let describe = || {
            format!(
                "walk {:?} from {:?}, stack {:?}, tree {:?}",
                match &case.under {
                    Under::Path => "Path::walk".to_string(),
                    Under::Glob { .. } => format!("Glob(`{}`)", glob_rt.as_ref().map(|g| g.glob.to_string()).unwrap_or_default()),
                },
                case.base,
                case.layers,
                case.tree.nodes.iter().map(|n| n.path.as_str()).collect::<Vec<_>>()
            )
        };
        // no error items on a fault-free tree (a tripwire that fires shows up here)
        for it in &out.items {
            if let Seen::Err { path, .. } = &it.seen {
                if path.as_ref().map_or(false, |p| link_errors.contains(p)) {
                    continue;
                }
                return Err(format!(
                    "{}: error item for {:?} — a directory the stack discards as a tree was read (cancellation not issued){}",
                    describe(),
                    path,
                    if armed > 0 { " [tripwire]" } else { "" }
                ));
            }
        }
        // the probe sees exactly the fed entries, each once
        let mut probe: BTreeMap<String, usize> = BTreeMap::new();
        for r in out.logs.last().unwrap() {
            *probe.entry(r.clone()).or_insert(0) += 1;
        }
        let fed: BTreeMap<String, usize> = m.fed.keys().map(|k| (k.clone(), 1)).collect();
        if probe != fed {
            let beneath: Vec<&String> = probe.keys().filter(|k| !fed.contains_key(*k)).collect();
            let skipped: Vec<&String> = fed.keys().filter(|k| !probe.contains_key(*k)).collect();
            let twice: Vec<&String> = probe.iter().filter(|(_, n)| **n > 1).map(|x| x.0).collect();
            return Err(format!(
                "{}: entries reaching the end of the stack differ from the model — produced although beneath a discarded tree: {:?}; skipped although not beneath a discarded tree: {:?}; fed more than once: {:?}; discarded trees: {:?}",
                describe(), beneath, skipped, twice, m.discarded
            ));
        }
        // yielded == fed entries every layer keeps
        let yielded: std::collections::BTreeSet<String> = out.items.iter().filter_map(|i| i.rel.clone()).collect();
        if yielded != m.yielded || out.items.iter().filter(|i| i.rel.is_some()).count() != m.yielded.len() {
            return Err(format!(
                "{}: yielded {:?}, the model says {:?}",
                describe(), yielded, m.yielded
            ));
        }
        if with_desc {
            let key = format!("{:?}|{:?}|{:?}", case.tree, case.under, case.layers);
            st.nontrivial(&key, || {
                json!({"tree": case.tree.nodes.iter().map(|n| n.path.clone()).collect::<Vec<_>>(),
                       "stack": format!("{:?}", case.layers), "discarded_trees": m.discarded, "yielded": m.yielded, "tripwires": armed})
            });
        }
        Ok(())
    }
}
