//! C09 — An "always exhaustive" verdict is sound.
//!
//! oracle: implication between two wax outputs — `is_exhaustive() == Always` ⇒ for every matched
//! canonical path, every canonical descendant matches too.

use crate::ast::*;
use crate::engine::*;
use crate::gen::*;
use crate::props::common::*;
use serde_json::json;
use wax::query::When;

pub struct C09;

#[derive(serde::Serialize, serde::Deserialize, Clone, Debug)]
pub struct Case {
    pub exprs: Vec<Expr>,
    /// (matched-path candidate, descendant)
    pub pairs: Vec<(String, String)>,
}

fn lit(s: &str) -> Tok {
    Tok::lit(s)
}

pub fn gen_tail(t: &mut Tape) -> Vec<Tok> {
    let tree_end = Tok::Tree { lead: true, trail: false };
    let tree_mid = Tok::Tree { lead: true, trail: true };
    let zs = Tok::Rep { body: vec![Tok::Zom { lazy: false }, Tok::Sep], lo: 0, hi: None, spell: 1 };
    match t.below(20) {
        0 => vec![tree_end],
        1 => vec![Tok::Sep, zs],
        2 => vec![Tok::Sep, Tok::Rep { body: vec![Tok::One, Tok::Sep], lo: 1, hi: None, spell: 0 }],
        3 => vec![Tok::Sep, Tok::Zom { lazy: false }],
        4 => vec![tree_mid, Tok::Alt(vec![vec![lit("a")]])],
        5 => vec![tree_mid, Tok::Alt(vec![vec![lit("a")], vec![lit("bc")]])],
        6 => vec![tree_mid, Tok::Rep { body: vec![lit("a")], lo: 1, hi: Some(2), spell: 0 }],
        7 => vec![
            Tok::Sep,
            Tok::Alt(vec![vec![lit("a"), tree_end.clone()], vec![lit("b"), tree_end.clone()]]),
        ],
        8 => vec![Tok::Alt(vec![
            vec![lit("a"), tree_end.clone()],
            vec![Tok::Tree { lead: false, trail: true }, lit("b")],
        ])],
        9 => vec![
            Tok::Sep,
            Tok::Rep {
                body: vec![Tok::Zom { lazy: false }, Tok::Alt(vec![vec![Tok::Sep], vec![tree_end.clone()]])],
                lo: 0,
                hi: None,
                spell: 1,
            },
        ],
        10 => vec![Tok::Sep, lit("a")],
        11 => vec![Tok::Sep, Tok::Class { neg: false, items: vec![Item::Ch('a'), Item::Ch('b')] }],
        12 => vec![Tok::Sep, Tok::One],
        13 => vec![Tok::Sep, zs, Tok::Zom { lazy: false }],
        14 => vec![tree_mid, Tok::Zom { lazy: false }],
        15 => vec![tree_mid, Tok::Alt(vec![vec![lit("a"), tree_end.clone()], vec![lit("b")]])],
        16 => vec![Tok::Sep, Tok::Alt(vec![vec![Tok::Zom { lazy: false }], vec![lit("a"), tree_end.clone()]])],
        17 => vec![
            Tok::Sep,
            Tok::Rep {
                body: vec![
                    lit("a"),
                    Tok::Sep,
                    Tok::Alt(vec![vec![Tok::Zom { lazy: false }], vec![Tok::Zom { lazy: false }, Tok::Sep, Tok::Zom { lazy: false }]]),
                ],
                lo: t.below(2),
                hi: None,
                spell: 0,
            },
        ],
        18 => vec![
            Tok::Sep,
            Tok::Rep {
                body: vec![
                    lit("a"),
                    Tok::Sep,
                    Tok::Rep { body: vec![Tok::Zom { lazy: false }, Tok::Sep], lo: t.below(2), hi: Some(1 + t.below(2)), spell: 0 },
                    Tok::Zom { lazy: false },
                ],
                lo: 0,
                hi: None,
                spell: 0,
            },
        ],
        _ => vec![tree_mid, Tok::Rep { body: vec![Tok::Zom { lazy: false }, Tok::Sep], lo: 1, hi: Some(2), spell: 0 }, Tok::Zom{lazy:false}],
    }
}

/// random nested expressions over the alphabet that matters for exhaustiveness
pub fn gen_exh_expr(t: &mut Tape) -> Expr {
    let mut cfg = GenCfg::default();
    cfg.max_toks = 6;
    cfg.max_depth = if t.chance(40) { 3 } else { 2 };
    cfg.noise_flags = 0;
    cfg.ci = 0;
    cfg.allow_rooted = true;
    // Lit Sep One Zom Tree Class Alt Rep
    cfg.weights = [16, 24, 5, 24, 9, 2, 10, 14];
    gen_expr(t, &cfg)
}

/// repetitions whose body spans a fixed number of components made of wildcards only
/// (`<*/*/:1,>*`, `x/<$/*/:2,>`, `<<*/*/:1,2>>*`, `<*/:3,>*`): unbounded in depth, but exhaustive
/// only when one iteration is one component
pub fn gen_stride(t: &mut Tape) -> Expr {
    let k = 1 + t.weighted(&[35, 45, 20]);
    let mut body: Expr = Vec::new();
    for _ in 0..k {
        match t.weighted(&[60, 20, 12, 8]) {
            0 => body.push(Tok::Zom { lazy: false }),
            1 => body.push(Tok::Zom { lazy: true }),
            2 => {
                body.push(Tok::One);
                body.push(Tok::Zom { lazy: false });
            },
            _ => body.push(Tok::lit("a")),
        }
        body.push(Tok::Sep);
    }
    let body = match t.weighted(&[70, 15, 15]) {
        0 => body,
        1 => {
            let lo = 1 + t.below(2);
            vec![Tok::Rep { body, lo, hi: Some(lo + t.below(2)), spell: 0 }]
        },
        _ => vec![Tok::Alt(vec![body.clone(), body])],
    };
    let lo = t.below(4);
    let hi = if t.chance(180) { None } else { Some(lo.max(1) + t.below(3)) };
    let mut e: Expr = Vec::new();
    if t.chance(50) {
        e.push(Tok::lit("x"));
        e.push(Tok::Sep);
    }
    e.push(Tok::Rep { body, lo, hi, spell: if lo == 0 && hi.is_none() && t.chance(128) { 1 } else { 0 } });
    match t.weighted(&[30, 45, 15, 10]) {
        0 => {},
        1 => e.push(Tok::Zom { lazy: false }),
        2 => e.push(Tok::Zom { lazy: true }),
        _ => {
            e.push(Tok::One);
            e.push(Tok::Zom { lazy: false });
        },
    }
    normalize(&e, true)
}

pub fn gen_tail_expr(t: &mut Tape) -> Expr {
    if t.chance(30) {
        return gen_stride(t);
    }
    if t.chance(110) {
        return gen_exh_expr(t);
    }
    let mut cfg = GenCfg::default();
    cfg.max_toks = 3;
    cfg.max_depth = 2;
    let mut base = if t.chance(90) { Vec::new() } else { gen_expr(t, &cfg) };
    let ntails = 1 + t.weighted(&[70, 25, 5]);
    for _ in 0..ntails {
        let mut tail = gen_tail(t);
        let ends_b = ends_expr(&base) & K_B != 0;
        if base.iter().all(|x| x.is_flag()) || ends_b {
            // no leading separator: unrooted / avoid adjacent boundaries
            match tail.first() {
                Some(Tok::Sep) => {
                    tail.remove(0);
                },
                Some(Tok::Tree { trail, .. }) => {
                    let tr = *trail;
                    if base.iter().all(|x| x.is_flag()) {
                        tail[0] = Tok::Tree { lead: false, trail: tr };
                    }
                    else {
                        // base ends with a boundary: drop that boundary instead
                        while base.last().map_or(false, |x| x.is_boundary()) {
                            base.pop();
                        }
                        if base.is_empty() {
                            tail[0] = Tok::Tree { lead: false, trail: tr };
                        }
                    }
                },
                _ => {},
            }
        }
        base.extend(tail);
    }
    merge_lits(&normalize(&base, true))
}

pub fn descendants(t: &mut Tape, p: &str, extra: &[String]) -> Vec<String> {
    // (a component may contain any character but the separator: also a line feed, a regex
    // special or an unpaired-looking bracket)
    let mut names: Vec<String> = ["a", "b", "x", ".a", "é", "bc", "A", "a\nb", "\n", "a|b", "[", "字 "].iter().map(|s| s.to_string()).collect();
    names.extend(extra.iter().cloned());
    let mut out = Vec::new();
    for _ in 0..4 {
        let k = 1 + t.weighted(&[50, 35, 15]);
        let comps: Vec<String> = (0..k).map(|_| t.pick(&names)).collect();
        let tail = comps.join("/");
        let d = if p.is_empty() {
            tail
        }
        else if p == "/" {
            format!("/{}", tail)
        }
        else {
            format!("{}/{}", p, tail)
        };
        out.push(d);
    }
    out
}

fn literal_names(e: &Expr) -> Vec<String> {
    let mut v = Vec::new();
    visit(e, 0, &mut |t, _| {
        if let Tok::Lit { text, .. } = t {
            if !text.contains('\n') {
                v.push(text.clone());
            }
        }
    });
    v
}

impl Property for C09 {
    type Case = Case;
    fn id(&self) -> &'static str {
        "C09"
    }
    fn rule(&self) -> String {
        "glob ASTs biased to exhaustive-looking tails (`/**`, `<*/>`, `<?/:1,>`, branches after a \
         tree wildcard, alternations exhaustive for some branches) and any() of two of them; for \
         every pattern reporting Always: every matched canonical pool path x 4 generated \
         descendants; `paths` in a case = (matched path, descendants are derived); one evaluation \
         = one (pattern, path, descendant); non-trivial = verdict Always and the path is matched; \
         distinct by (pattern, descendant)"
            .into()
    }
    fn assumptions(&self) -> Vec<String> {
        vec![
            "canonical paths: no empty component, no trailing separator; the empty path is canonical and every relative path lies beneath it (the walk root has the empty relative path)".into(),
            "nothing is checked for Sometimes / Never verdicts (the property makes no claim)".into(),
        ]
    }
    fn budget(&self, tier: Tier) -> (u32, u32) {
        match tier {
            Tier::Quick => (6000, 8),
            Tier::Thorough => (200000, 16),
        }
    }
    fn required_counters(&self) -> Vec<&'static str> {
        vec!["verdict_always", "verdict_sometimes", "verdict_never", "always_with_branch_in_tail", "always_any", "always_matched_path", "multi_component_leaf_body"]
    }
    fn decode(&self, t: &mut Tape) -> Case {
        let n = 1 + t.weighted(&[75, 25]);
        let mut exprs: Vec<Expr> = (0..n).map(|_| gen_tail_expr(t)).collect();
        add_empty_member(t, &mut exprs);
        let mut paths = pat_pool(t, &exprs, 1);
        paths = paths.into_iter().map(|p| canonicalize(&p)).collect();
        let mut names = Vec::new();
        for e in &exprs {
            names.extend(literal_names(e));
        }
        let mut out = Vec::new();
        paths.sort();
        paths.dedup();
        for p in paths.iter().take(12) {
            for d in descendants(t, p, &names) {
                out.push((p.clone(), d));
            }
        }
        Case { exprs, pairs: out }
    }
    fn directed(&self) -> Vec<Case> {
        let mk = |e: Expr, pd: &[(&str, &str)]| Case {
            exprs: vec![e],
            pairs: pd.iter().map(|(p, d)| (p.to_string(), d.to_string())).collect(),
        };
        vec![
            mk(
                vec![Tok::Tree { lead: false, trail: true }, Tok::Alt(vec![vec![lit("a")]])],
                &[("a", "a/h"), ("x/a", "x/a/b")],
            ),
            mk(
                vec![Tok::Rep { body: vec![Tok::Zom { lazy: false }, Tok::Sep], lo: 0, hi: None, spell: 1 }],
                &[("", "a"), ("", "a/b")],
            ),
        ]
    }
    fn shrink(&self, c: &Case) -> Vec<Case> {
        shrink_patcase(&PatCase { exprs: c.exprs.clone(), paths: vec![] })
            .into_iter()
            .map(|pc| Case { exprs: pc.exprs, pairs: c.pairs.clone() })
            .chain(if c.pairs.len() > 1 {
                c.pairs.iter().map(|pd| Case { exprs: c.exprs.clone(), pairs: vec![pd.clone()] }).collect::<Vec<_>>()
            }
            else {
                vec![]
            })
            .collect()
    }
    fn check(&self, case: &Case, st: &mut Stats) -> CheckResult {
        let (text, pat) = match build_pat(&case.exprs) {
            Ok(Some(x)) => x,
            Ok(None) => {
                st.count("not_built");
                return Ok(());
            },
            Err(_) => {
                st.panicked += 1;
                return Ok(());
            },
        };
        let verdict = match guard(|| pat.is_exhaustive()) {
            Ok(v) => v,
            Err(_) => {
                st.panicked += 1;
                return Ok(());
            },
        };
        match verdict {
            When::Always => st.count("verdict_always"),
            When::Sometimes => st.count("verdict_sometimes"),
            When::Never => st.count("verdict_never"),
        }
        if case.exprs.iter().any(|e| {
            strip_flags(e).iter().any(|t| match t {
                Tok::Rep { body, hi, .. } => *hi != Some(1) && body.iter().filter(|x| **x == Tok::Sep).count() >= 2 && !body.iter().any(|x| x.is_branch()),
                _ => false,
            })
        }) {
            st.count("multi_component_leaf_body");
        }
        if verdict != When::Always {
            return Ok(());
        }
        if pat.is_any() {
            st.count("always_any");
        }
        for e in &case.exprs {
            let es = strip_flags(e);
            let n = es.len();
            if es.iter().skip(n.saturating_sub(2)).any(|t| t.is_branch()) {
                st.count("always_with_branch_in_tail");
            }
        }
        for (p, d) in &case.pairs {
            let (p, d) = (p.as_str(), d.as_str());
            if !is_canonical(p) || !is_canonical(d) {
                continue;
            }
            let mp = pat.is_match(p);
            if !mp {
                continue;
            }
            st.count("always_matched_path");
            st.eval(1);
            let md = pat.is_match(d);
            if !md {
                if let Some(f) = classify_exh(&case.exprs, &pat, p, d, "C09") {
                    st.known(f, || format!("{} matches {:?} but not {:?}", text, p, d));
                    continue;
                }
                return Err(format!(
                    "{} reports is_exhaustive() == Always and matches {:?}, but does not match the descendant {:?}",
                    text, p, d
                ));
            }
            st.nontrivial(&(text.as_str(), d), || json!({"pattern": text, "matched": p, "descendant": d}));
        }
        Ok(())
    }
}


/// Which open exhaustiveness finding (if any) explains exactly that the pattern matches the
/// canonical path `p` but not its canonical descendant `d`?
pub fn classify_exh(exprs: &[Expr], pat: &Pat, p: &str, d: &str, property: &str) -> Option<&'static str> {
    // F-EXH-OPTIONAL: exhaustiveness is computed as if every repetition were taken at least once.
    // Predicted: the matched path needs a skipped repetition, i.e. the same pattern with every
    // zero lower bound raised to one does not match it.
    if crate::findings::is_open("F-EXH-OPTIONAL", property) && exprs.iter().any(has_optional_rep) {
        // judged per alternative (member of a combinator, branch of a top-level alternation —
        // which is what a negation partitions by; a plain pattern is its own only alternative):
        // the alternative matches p only with a repetition skipped, and raised it reports Always
        for alt in exprs.iter().flat_map(|e| crate::props::stacks::negation_alternatives(e)) {
            if !has_optional_rep(&alt) {
                continue;
            }
            let (g, r) = match (build(&render_text(&alt)), build(&render_text(&raise_optional(&alt)))) {
                (Ok(Ok(g)), Ok(Ok(r))) => (g, r),
                _ => continue,
            };
            let explained = guard(|| {
                use wax::Program;
                g.is_match(p) && !r.is_match(p) && r.is_exhaustive().is_always()
            });
            if explained == Ok(true) {
                return Some("F-EXH-OPTIONAL");
            }
        }
        // the pattern as a whole (a combinator whose members only match p together)
        let raised: Vec<Expr> = exprs.iter().map(raise_optional).collect();
        if let Ok(Some((_, p2))) = build_pat(&raised) {
            let raised_always = raised.iter().flat_map(|e| crate::props::stacks::negation_alternatives(e)).any(|e| matches!(build(&render_text(&e)), Ok(Ok(g)) if guard(|| wax::Program::is_exhaustive(&g)).map_or(false, |w| w.is_always())));
            if !p2.is_match(p) && raised_always {
                return Some("F-EXH-OPTIONAL");
            }
        }
    }
    // The remaining three findings are judged together, because they combine: the descendant is
    // tried as is, with a trailing separator (F-EXH-TRAILSEP), extended by 1-8 further components
    // (F-EXH-MULTIPLE), and each of those against the pattern itself and against the pattern with
    // bounded nested tails widened to `*` (F-EXH-BRANCH, reference matcher in lenient mode).
    let trail = crate::findings::is_open("F-EXH-TRAILSEP", property) && exprs.iter().any(trailsep_trigger);
    let multi = crate::findings::is_open("F-EXH-MULTIPLE", property) && exprs.iter().any(multiple_trigger);
    let widened: Vec<Expr> = exprs.iter().map(|e| widen_tail(&strip_flags(e))).collect();
    let branch = crate::findings::is_open("F-EXH-BRANCH", property)
        && widened.iter().zip(exprs.iter()).any(|(w, e)| *w != strip_flags(e));
    let mut targets: Vec<(String, bool, bool)> = vec![(d.to_string(), false, false)];
    if multi {
        let last = d.rsplit('/').next().unwrap_or("a");
        for name in [last, "a", "aa", "x"] {
            let mut ext = d.to_string();
            for _ in 0..8 {
                ext.push('/');
                ext.push_str(name);
                targets.push((ext.clone(), false, true));
            }
        }
    }
    if trail {
        let more: Vec<(String, bool, bool)> = targets.iter().map(|(t, _, m)| (format!("{}/", t), true, *m)).collect();
        targets.extend(more);
    }
    let nested_trigger = crate::findings::is_open("F-EXH-NESTED", property) && exprs.iter().any(nested_trigger);
    // single causes first
    let mut order: Vec<usize> = (0..targets.len()).collect();
    order.sort_by_key(|i| (targets[*i].1 as u8 + targets[*i].2 as u8, *i));
    for widen in [false, true] {
        if widen && !branch {
            continue;
        }
        for i in &order {
            let (t, used_trail, used_multi) = &targets[*i];
            if !widen && !used_trail && !used_multi {
                continue; // that is the violation itself
            }
            let m = if widen {
                widened.iter().any(|w| crate::refmatch::lenient_match_with(w, t, crate::refmatch::Quirks { root_tree: true }))
            }
            else {
                pat.is_match(t)
            };
            if m {
                return Some(if widen {
                    "F-EXH-BRANCH"
                }
                else if *used_multi {
                    "F-EXH-MULTIPLE"
                }
                else {
                    "F-EXH-TRAILSEP"
                });
            }
        }
    }
    // F-EXH-NESTED: residual family — the same depth-only reasoning in expressions nested three or
    // more levels deep; no behavioural prediction is attempted there (trigger only)
    if nested_trigger {
        return Some("F-EXH-NESTED");
    }
    None
}

/// F-EXH-NESTED trigger: an unbounded repetition and tokens nested three or more levels deep.
pub fn nested_trigger(e: &Expr) -> bool {
    max_depth(e) >= 3 && any_tok(e, &|t, _| matches!(t, Tok::Rep { hi: None, .. }))
}

/// F-EXH-TRAILSEP trigger: the last top-level token is a repetition every unfolding of which
/// ends in a separator (`<*/>`, `<*/:1,>`, `a<?/>`, `<*{/}>`, ...).
pub fn trailsep_trigger(e: &Expr) -> bool {
    fn ends(e: &Expr) -> bool {
        match e.last() {
            Some(Tok::Sep) => true,
            Some(Tok::Alt(bs)) => bs.iter().any(ends),
            Some(Tok::Rep { body, .. }) => ends(body),
            _ => false,
        }
    }
    let es = strip_flags(e);
    // every unfolding of the whole expression ends in a separator (`<*/>`, `a/<*/:1,>`, `**/*/`)
    ends(&es)
}

pub fn has_optional_rep(e: &Expr) -> bool {
    any_tok(e, &|t, _| matches!(t, Tok::Rep { lo: 0, .. }))
}

/// the same expression with every zero lower bound raised to one
pub fn raise_optional(e: &Expr) -> Expr {
    e.iter()
        .map(|t| match t {
            Tok::Alt(bs) => Tok::Alt(bs.iter().map(raise_optional).collect()),
            Tok::Rep { body, lo, hi, .. } => {
                Tok::Rep { body: raise_optional(body), lo: (*lo).max(1), hi: *hi, spell: 0 }
            },
            t => t.clone(),
        })
        .collect()
}

fn open_leaf(t: &Tok) -> bool {
    matches!(t, Tok::Sep | Tok::Zom { .. } | Tok::Tree { .. })
}
fn open_tok(t: &Tok) -> bool {
    match t {
        Tok::Alt(bs) => bs.iter().all(|b| b.iter().all(open_tok)),
        Tok::Rep { body, .. } => body.iter().all(open_tok),
        t => open_leaf(t),
    }
}

fn unbounded_depth(t: &Tok) -> bool {
    match t {
        Tok::Tree { .. } => true,
        Tok::Alt(bs) => bs.iter().any(|b| b.iter().any(unbounded_depth)),
        Tok::Rep { body, hi, .. } => {
            body.iter().any(unbounded_depth)
                || (hi.is_none() && any_tok(body, &|t, _| matches!(t, Tok::Sep)))
        },
        _ => false,
    }
}

/// F-EXH-BRANCH quirk model: follow wax's tail scan (from the end of every concatenation, over
/// open tokens); a *nested* concatenation whose scan takes nothing (its last token bounds the
/// text) is what wax turns into a zero term and then treats as transparent — widen it to `*`.
pub fn widen_tail(e: &Expr) -> Expr {
    // `nested`: the concatenation is a branch / body; `rep_body`: it is the body of a repetition;
    // `unb`: some repetition *around the branch that holds this concatenation* has no upper bound
    // (only then can a zero term be multiplied into 'unbounded depth'; the body of an unbounded
    // repetition is not beneath it in that sense: `**/<a:1,>` is judged like `**/<a:1,2>`);
    // `unb_in`: what the branches inside this concatenation inherit
    fn go(e: &Expr, nested: bool, rep_body: bool, unb: bool, unb_in: bool) -> Expr {
        let mut out = e.clone();
        let mut i = e.len();
        while i > 0 {
            i -= 1;
            match &e[i] {
                t if t.is_branch() => {
                    out[i] = match t {
                        Tok::Alt(bs) => Tok::Alt(bs.iter().map(|b| go(b, true, false, unb_in, unb_in)).collect()),
                        Tok::Rep { body, lo, hi, spell } => {
                            Tok::Rep { body: go(body, true, true, unb_in, unb_in || hi.is_none()), lo: *lo, hi: *hi, spell: *spell }
                        },
                        _ => unreachable!(),
                    };
                    if !open_tok(t) {
                        // a nested concatenation whose scan ends at a bounded branch without
                        // having seen unbounded depth yields a zero term, like one that ends at a
                        // bounded leaf
                        if nested && unb && i > 0 && !e[i..].iter().any(unbounded_depth) {
                            return vec![Tok::Zom { lazy: false }];
                        }
                        // the scan stops after this branch.  In a repetition body whose scanned
                        // part keeps a may-be-exhaustive sum, the unscanned head is ignored and
                        // the repetition then multiplies the whole body: the head acts like `*`
                        if rep_body && i > 0 && e[i..].iter().any(unbounded_depth) {
                            let mut v = vec![Tok::Zom { lazy: false }];
                            v.extend(out[i..].iter().cloned());
                            return v;
                        }
                        break;
                    }
                },
                t if open_leaf(t) => {},
                _ => {
                    // bounded leaf: the scan stops here; unless the scanned part has unbounded
                    // depth, wax yields a zero term for this concatenation
                    if nested && unb && !e[i + 1..].iter().any(unbounded_depth) {
                        return vec![Tok::Zom { lazy: false }];
                    }
                    // (as above: only where the scanned tail has unbounded depth)
                    if rep_body && i + 1 < e.len() && e[i + 1..].iter().any(unbounded_depth) {
                        let mut v = vec![Tok::Zom { lazy: false }];
                        v.extend(out[i + 1..].iter().cloned());
                        return v;
                    }
                    break;
                },
            }
        }
        out
    }
    go(e, false, false, false, false)
}

/// F-EXH-MULTIPLE trigger: a repetition that may iterate more than once whose body can span two
/// or more components in one iteration and has variant depth (an alternation or a ranged
/// repetition inside the body).
pub fn multiple_trigger(e: &Expr) -> bool {
    fn boundaries(e: &Expr) -> usize {
        e.iter()
            .map(|t| match t {
                Tok::Sep | Tok::Tree { .. } => 1,
                Tok::Alt(bs) => bs.iter().map(boundaries).max().unwrap_or(0),
                Tok::Rep { body, lo, hi, .. } => boundaries(body) * hi.unwrap_or((*lo).max(1) + 1).max(1),
                _ => 0,
            })
            .sum()
    }
    fn variant(e: &Expr) -> bool {
        any_tok(e, &|t, _| match t {
            Tok::Alt(_) => true,
            Tok::Rep { lo, hi, .. } => *hi != Some(*lo),
            _ => false,
        })
    }
    any_tok(e, &|t, _| match t {
        Tok::Rep { body, hi, .. } => *hi != Some(1) && boundaries(body) >= 2 && variant(body),
        _ => false,
    })
}
