//! C01 — Matching conforms to the documented glob semantics.
//!
//! generate: rule-aware glob AST → text, path pool (witness / mutant / random / regex-directed)
//! oracle:   three-valued reference matcher (refmatch.rs); violation iff MUST_ACCEPT ∧ ¬is_match
//!           or MUST_REJECT ∧ is_match.

use crate::ast::*;
use crate::engine::*;
use crate::gen::*;
use crate::props::common::*;
use crate::refmatch::{self, Quirks, Verdict};
use serde::{Deserialize, Serialize};
use serde_json::json;
use std::path::Path;
use wax::{CandidatePath, Program};

pub struct C01;

#[derive(Serialize, Deserialize, Clone, Debug)]
pub struct Case {
    pub expr: Expr,
    pub paths: Vec<String>,
}

fn classify_expr(e: &Expr, st: &mut Stats) {
    let mut flag_class = false;
    let mut prev_ci = false;
    visit(e, 0, &mut |t, d| {
        match t {
            Tok::Lit { ci, text } => {
                prev_ci = *ci;
                if *ci && !text.is_ascii() {
                    st.count("nonascii_literal_under_ci");
                }
            },
            Tok::Class { .. } => {
                if prev_ci {
                    flag_class = true;
                }
            },
            Tok::Tree { .. } => {
                if d >= 2 {
                    st.count("tree_two_branches_deep");
                }
                else if d == 1 {
                    st.count("tree_in_branch");
                }
            },
            _ => {},
        }
    });
    if flag_class {
        st.count("ci_literal_then_class");
    }
    let toks: Vec<&Tok> = e.iter().filter(|t| !t.is_flag()).collect();
    if let Some(Tok::Tree { lead: true, .. }) = toks.first() {
        if toks.len() > 1 {
            st.count("rooted_tree_followed_by_something");
        }
        else {
            st.count("rooted_tree_only");
        }
    }
    if toks.iter().any(|t| t.is_branch()) {
        st.count("expr_with_branch");
    }
}

/// Which open finding (if any) explains a disagreement exactly?
pub fn classify(e: &Expr, path: &str, wax_matches: bool) -> Option<&'static str> {
    // F-ROOT-TREE: `/**/a` accepts `/xa` — quirk model: rooted leading tree wildcard matches
    // `/` + anything + optional `/`
    if crate::findings::is_open("F-ROOT-TREE", "C01") && wax_matches {
        let q = Quirks { root_tree: true };
        if refmatch::lenient_match_with(e, path, q) {
            return Some("F-ROOT-TREE");
        }
    }
    None
}

impl Property for C01 {
    type Case = Case;
    fn id(&self) -> &'static str {
        "C01"
    }
    fn rule(&self) -> String {
        "glob ASTs generated from wax's grammar (rule-aware, nesting ≤3) rendered to text and kept \
         when Glob::new accepts them; per expression a pool of witness / mutant / random / \
         regex-directed paths; one evaluation = one (expression, path) pair judged by the \
         three-valued reference matcher; non-trivial = the expression has a non-literal token and \
         its pool contains both a must-accept and a must-reject path; distinct by (text, path)"
            .into()
    }
    fn assumptions(&self) -> Vec<String> {
        vec![
            "Unix reading (separator `/`, case-sensitive default)".into(),
            "only characters with a one-to-one simple case mapping take part under (?i)".into(),
            "paths the documentation does not decide (empty components, swallowed leading \
             separator, bare trailing separator, undelimited tree wildcards) are UNSPECIFIED and \
             cannot fail"
                .into(),
        ]
    }
    fn budget(&self, tier: Tier) -> (u32, u32) {
        match tier {
            Tier::Quick => (4000, 8),
            Tier::Thorough => (100000, 16),
        }
    }
    fn required_counters(&self) -> Vec<&'static str> {
        vec![
            "built",
            "ci_literal_then_class",
            "rooted_tree_followed_by_something",
            "tree_in_branch",
            "path_newline_under_tree",
            "path_trailing_separator",
            "rooted_path_vs_unrooted_glob",
            "nonascii_literal_under_ci",
            "must_accept",
            "must_reject",
        ]
    }
    fn decode(&self, t: &mut Tape) -> Case {
        let cfg = GenCfg::default();
        let expr = gen_expr(t, &cfg);
        let text = render_text(&expr);
        let pat = pattern_of(&text);
        let paths = path_pool(t, &expr, pat.as_deref(), 2);
        Case { expr, paths }
    }
    fn directed(&self) -> Vec<Case> {
        let mk = |e: Expr, ps: &[&str]| Case { expr: e, paths: ps.iter().map(|s| s.to_string()).collect() };
        vec![
            mk(vec![Tok::Tree { lead: false, trail: false }], &["a\nb", "a/b\n/c", "", "/", "a"]),
            mk(
                vec![Tok::Lit { text: "a".into(), ci: true }, Tok::Class { neg: false, items: vec![Item::Ch('b')] }],
                &["ab", "Ab", "aB", "AB"],
            ),
            mk(vec![Tok::Tree { lead: true, trail: false }], &["a", "", "/", "/a", "/a/b"]),
            mk(
                vec![Tok::Tree { lead: true, trail: true }, Tok::lit("a")],
                &["/a", "/x/a", "/xa", "a", "x/a"],
            ),
        ]
    }
    fn shrink(&self, c: &Case) -> Vec<Case> {
        let mut out = Vec::new();
        if c.paths.len() > 1 {
            for p in &c.paths {
                out.push(Case { expr: c.expr.clone(), paths: vec![p.clone()] });
            }
        }
        for e in shrink_expr(&c.expr) {
            out.push(Case { expr: normalize(&e, true), paths: c.paths.clone() });
        }
        if c.paths.len() == 1 {
            let p = &c.paths[0];
            let cs: Vec<char> = p.chars().collect();
            for i in 0..cs.len() {
                let s: String = cs.iter().enumerate().filter(|(j, _)| *j != i).map(|x| *x.1).collect();
                out.push(Case { expr: c.expr.clone(), paths: vec![s] });
            }
        }
        out
    }
    fn check(&self, case: &Case, st: &mut Stats) -> CheckResult {
        let text = render_text(&case.expr);
        let glob = match build(&text) {
            Ok(Ok(g)) => g,
            Ok(Err(_)) => {
                st.count("not_built");
                return Ok(());
            },
            Err(_) => {
                st.panicked += 1;
                return Ok(());
            },
        };
        st.count("built");
        let e = strip_flags(&case.expr);
        classify_expr(&e, st);
        let has_tree = any_tok(&e, &|t, _| matches!(t, Tok::Tree { .. }));
        let rooted_glob = starts_rooting_expr(&e);
        let nonlit = has_nonliteral(&e);
        let mut verdicts = Vec::with_capacity(case.paths.len());
        let (mut acc, mut rej) = (false, false);
        for p in &case.paths {
            let v = refmatch::verdict(&e, p);
            match v {
                Verdict::MustAccept => {
                    acc = true;
                    st.count("must_accept");
                },
                Verdict::MustReject => {
                    rej = true;
                    st.count("must_reject");
                },
                Verdict::Unspecified => {
                    if !st.frozen {
                        st.unspecified += 1;
                    }
                },
            }
            verdicts.push(v);
        }
        for (p, v) in case.paths.iter().zip(verdicts.iter()) {
            st.eval(1);
            if has_tree && p.contains('\n') {
                st.count("path_newline_under_tree");
            }
            if p.len() > 1 && p.ends_with('/') {
                st.count("path_trailing_separator");
            }
            if p.starts_with('/') && !rooted_glob {
                st.count("rooted_path_vs_unrooted_glob");
            }
            let m = match guard(|| {
                let a = glob.is_match(p.as_str());
                let b = glob.is_match(Path::new(p.as_str()));
                let c1 = glob.is_match(CandidatePath::from(p.as_str()));
                let c2 = glob.is_match(CandidatePath::from(p.as_str()).into_owned());
                // a disagreement between the borrowed and the owned candidate shows as c != a
                let c = if c1 == c2 { c1 } else { !a };
                (a, b, c)
            }) {
                Ok(m) => m,
                Err(_) => {
                    st.panicked += 1;
                    continue;
                },
            };
            if m.0 != m.1 || m.0 != m.2 {
                return Err(format!(
                    "`{}`: is_match({:?}) differs between &str / &Path / CandidatePath (borrowed and owned): {:?}",
                    text, p, m
                ));
            }
            let m = m.0;
            let bad = match v {
                Verdict::MustAccept => !m,
                Verdict::MustReject => m,
                Verdict::Unspecified => false,
            };
            if bad {
                if let Some(f) = classify(&e, p, m) {
                    st.known(f, || format!("`{}` vs {:?}: is_match = {}", text, p, m));
                    continue;
                }
                return Err(format!(
                    "glob `{}` (regex `{}`): documented semantics say {:?} for path {:?}, but is_match = {}",
                    text,
                    glob.verif_program_pattern(),
                    v,
                    p,
                    m
                ));
            }
            if nonlit && acc && rej {
                st.nontrivial(&(text.as_str(), p.as_str()), || {
                    json!({"glob": text, "path": p, "oracle": format!("{:?}", v), "is_match": m})
                });
            }
        }
        Ok(())
    }
}
