//! C02 — Walking a glob yields exactly the files whose relative path matches.
//!
//! oracle: independent read_dir traversal of the base (or of the start directory for rooted and
//! dot-prefixed globs), filtered with the glob's own `is_match` on the candidate text.

use crate::ast::*;
use crate::engine::*;
use crate::fsmodel::*;
use crate::gen::*;
use crate::props::common::*;
use crate::props::fscommon::*;
use serde::{Deserialize, Serialize};
use serde_json::json;
use std::collections::BTreeMap;
use wax::Program;

pub struct C02;

#[derive(Serialize, Deserialize, Clone, Debug, PartialEq)]
pub enum Shape {
    Plain,
    /// invariant prefix = an existing directory (relative to the base); style 0 literal,
    /// 1 first component in `{..}`, 2 first component as `<c/:1>`
    Prefixed(String, u8),
    /// the absolute path of the tree root is spelled in front of the pattern
    Rooted,
    /// a prefix with `.` / `..` components, e.g. ["..", "t"]
    Dots(Vec<String>),
}

#[derive(Serialize, Deserialize, Clone, Debug)]
pub struct Case {
    pub tree: TreeSpec,
    pub base: Base,
    pub shape: Shape,
    pub glob: Expr,
    /// walk with `LinkBehavior::ReadTarget` (linked directories are descended into; re-entrant and
    /// dangling links are error items)
    #[serde(default)]
    pub follow: bool,
}

pub fn join_prefix(prefix: &str, style: u8, glob: &Expr) -> Expr {
    let mut pre = literal_prefix(prefix, true);
    if style == 1 || style == 2 {
        // wrap the first component (and its separator for style 2)
        let first_lit = pre.iter().position(|t| matches!(t, Tok::Lit { .. }));
        if let Some(i) = first_lit {
            if style == 1 {
                let l = pre[i].clone();
                pre[i] = Tok::Alt(vec![vec![l]]);
            }
            else if i + 1 < pre.len() {
                let l = pre[i].clone();
                pre[i] = Tok::Rep { body: vec![l, Tok::Sep], lo: 1, hi: Some(1), spell: 1 };
                pre.remove(i + 1);
            }
        }
    }
    let g: Vec<Tok> = glob.iter().filter(|t| !t.is_flag()).cloned().collect();
    if g.is_empty() {
        while matches!(pre.last(), Some(Tok::Sep)) && pre.len() > 1 {
            pre.pop();
        }
        return pre;
    }
    let mut g = glob.clone();
    if let Some(Tok::Tree { trail, .. }) = g.iter().find(|t| !t.is_flag()).cloned() {
        // `p/` + `**/x` → `p/**/x`
        if matches!(pre.last(), Some(Tok::Sep)) && pre.len() > 1 {
            pre.pop();
        }
        let i = g.iter().position(|t| !t.is_flag()).unwrap();
        g[i] = Tok::Tree { lead: !pre.is_empty() && !matches!(pre.last(), Some(Tok::Sep)), trail };
        if matches!(pre.last(), Some(Tok::Sep)) {
            // prefix is just the root `/`: `/**/x`
            pre.pop();
            g[i] = Tok::Tree { lead: true, trail };
        }
    }
    else if matches!(g.iter().find(|t| !t.is_flag()), Some(Tok::Sep)) {
        let i = g.iter().position(|t| !t.is_flag()).unwrap();
        g.remove(i);
    }
    pre.extend(g);
    normalize(&pre, true)
}

pub fn full_glob(case_shape: &Shape, glob: &Expr, root_abs: &str) -> Expr {
    match case_shape {
        Shape::Plain => glob.clone(),
        Shape::Prefixed(dir, style) => join_prefix(dir, *style, glob),
        Shape::Rooted => join_prefix(root_abs, 0, glob),
        Shape::Dots(comps) => join_prefix(&comps.join("/"), 0, glob),
    }
}

pub fn gen_shape(t: &mut Tape, tree: &TreeSpec, base: &Base) -> Shape {
    // directories relative to the base
    let dirs: Vec<String> = tree
        .nodes
        .iter()
        .filter(|n| n.kind == Kind::Dir && !n.unreadable)
        // (a name with a backslash cannot be spelled as a glob literal by the renderer)
        .filter(|n| !n.path.contains('\\') && !n.path.contains(RAW))
        .filter_map(|n| match base {
            Base::Sub(p) => n.path.strip_prefix(&format!("{}/", p)).map(String::from),
            Base::Parent => Some(format!("t/{}", n.path)),
            _ => Some(n.path.clone()),
        })
        .collect();
    match t.weighted(&[34, 28, 20, 18]) {
        0 => Shape::Plain,
        1 => {
            if dirs.is_empty() {
                Shape::Plain
            }
            else {
                Shape::Prefixed(t.pick(&dirs), t.weighted(&[60, 20, 20]) as u8)
            }
        },
        2 => Shape::Rooted,
        _ => {
            let first_dir = dirs.iter().find(|d| !d.contains('/')).cloned();
            let opts: Vec<Vec<String>> = match base {
                Base::Sub(_) => vec![vec![".".into()], vec!["..".into()]],
                Base::Parent => vec![vec![".".into()], vec![".".into(), "t".into()], vec!["t".into(), "..".into(), "t".into()]],
                _ => {
                    let mut v = vec![
                        vec![".".to_string()],
                        vec!["..".to_string()],
                        vec!["..".to_string(), "t".to_string()],
                        vec!["..".to_string(), "s".to_string()],
                    ];
                    if let Some(d) = first_dir {
                        v.push(vec![".".into(), d.clone()]);
                        v.push(vec![d.clone(), "..".into()]);
                        v.push(vec![d.clone(), ".".into()]);
                        v.push(vec![d, "..".into(), "..".into(), "t".into()]);
                    }
                    v
                },
            };
            Shape::Dots(t.pick(&opts))
        },
    }
}

pub struct Expected {
    /// normalised path → (candidate text, depth below the start, is_dir)
    pub entries: BTreeMap<String, (String, usize, bool)>,
    pub start_abs: std::path::PathBuf,
}

/// enumerate everything a walk of this shape could possibly yield, with candidate texts
pub fn universe(shape: &Shape, s: &Scratch, base_given: &std::path::Path, base_abs: &std::path::Path, follow: bool) -> Vec<(String, String, RefItem)> {
    // (normalised expected path, candidate text, item)
    let mut out = Vec::new();
    match shape {
        Shape::Plain | Shape::Prefixed(..) => {
            for it in ref_walk(base_abs, follow) {
                let rel = it.rel().to_string();
                let p = if rel.is_empty() { norm(base_given) } else { norm(&base_given.join(&rel)) };
                out.push((p, rel, it));
            }
        },
        Shape::Rooted => {
            let top = &s.top;
            for it in ref_walk(top, follow) {
                let rel = it.rel().to_string();
                let abs = if rel.is_empty() { top.clone() } else { top.join(&rel) };
                let text = abs.to_string_lossy().to_string();
                out.push((norm(&abs), text, it));
            }
        },
        Shape::Dots(comps) => {
            let dots = comps.join("/");
            let start_given = base_given.join(&dots);
            let start_abs = base_abs.join(&dots);
            for it in ref_walk(&start_abs, follow) {
                let rel = it.rel().to_string();
                let p = if rel.is_empty() { norm(&start_given) } else { norm(&start_given.join(&rel)) };
                let cand = if rel.is_empty() { dots.clone() } else { format!("{}/{}", dots, rel) };
                out.push((p, cand, it));
            }
        },
    }
    out
}

impl Property for C02 {
    type Case = Case;
    fn id(&self) -> &'static str {
        "C02"
    }
    fn rule(&self) -> String {
        "generated directory trees (<= 4 levels, <= 24 entries, pattern-like / hidden / non-ASCII \
         names, links — leaves by default, followed in a quarter of the walks —, regular files whose names are not valid UTF-8) x base spellings (absolute, trailing `/`, trailing `/.`, relative, \
         a sub-directory, the parent, and — sequentially — `.` / `./` with the tree as working directory) x globs whose literals are names of the tree, in four shapes \
         (no prefix, invariant prefix of existing directories incl. `{a}` / `<a/:1>` spellings, \
         rooted by the absolute scratch path, `.`/`..` prefixes); one evaluation = one walk \
         compared as a multiset with the filtered reference traversal, plus pure-path component \
         program checks; non-trivial = tree with >= 2 levels, glob with a non-literal token, \
         expected set neither empty nor everything; distinct by (tree, base, glob)"
            .into()
    }
    fn assumptions(&self) -> Vec<String> {
        vec![
            "paths are compared component-wise (a trailing `/` or `/.` of the base is not a difference)".into(),
            "both link behaviours (a quarter of the walks read link targets); names that are not valid UTF-8 only for regular files, matched through their lossy text".into(),
            "the expected set is defined with the glob's own is_match on the candidate text (C01 ties is_match to the documentation)".into(),
        ]
    }
    fn budget(&self, tier: Tier) -> (u32, u32) {
        match tier {
            Tier::Quick => (2000, 8),
            Tier::Thorough => (12000, 16),
        }
    }
    fn tape_len(&self) -> usize {
        256
    }
    fn required_counters(&self) -> Vec<&'static str> {
        vec!["walks", "trees_with_links", "pruned_links", "shape_plain", "shape_prefixed", "shape_rooted", "shape_dots", "pruned_directories", "walk_root_expected", "base_noncanonical", "component_program_checks", "read_target_walks", "caseless_component_other_casing", "walks_from_current_directory", "partitioned_after_walk"]
    }
    fn decode(&self, t: &mut Tape) -> Case {
        let tree = gen_tree(t, &TreeCfg { links: true, non_utf8: true, ..TreeCfg::default() });
        let base = gen_base(t, &tree);
        let shape = gen_shape(t, &tree, &base);
        let glob = gen_expr(t, &fs_glob_cfg(&tree));
        let follow = t.chance(64);
        if t.chance(24) {
            // case family: a caseless literal *component* whose directory exists in another casing
            // (the walk's prefix / pruning must honour the flag exactly as matching does)
            let cased: Vec<String> = tree
                .nodes
                .iter()
                .filter(|n| n.kind == Kind::Dir && !n.path.contains(RAW))
                .map(|n| n.path.clone())
                .filter(|p| {
                    let name = p.rsplit('/').next().unwrap_or("");
                    name.to_uppercase() != name.to_lowercase()
                })
                .collect();
            if !cased.is_empty() {
                let d = t.pick(&cased);
                let (parent, name) = match d.rsplit_once('/') {
                    Some((p, n)) => (p.to_string(), n.to_string()),
                    None => (String::new(), d.clone()),
                };
                let swapped: String = if name.to_uppercase() != name { name.to_uppercase() } else { name.to_lowercase() };
                let sp = if parent.is_empty() { swapped.clone() } else { format!("{}/{}", parent, swapped) };
                let mut tree = tree;
                if !tree.nodes.iter().any(|n| n.path == sp) {
                    tree.nodes.push(Node { path: sp.clone(), kind: Kind::Dir, unreadable: false });
                    tree.nodes.push(Node { path: format!("{}/x.rs", sp), kind: Kind::File, unreadable: false });
                    tree.nodes.push(Node { path: format!("{}/b", sp), kind: Kind::Dir, unreadable: false });
                    tree.nodes.push(Node { path: format!("{}/b/a", sp), kind: Kind::File, unreadable: false });
                }
                let mut glob = literal_prefix(&parent, true);
                match t.below(3) {
                    // the directory in either casing: a caseless literal, an alternation of the
                    // two spellings, or a class for the first letter — none of them is invariant
                    // text on a case-sensitive platform
                    0 => glob.push(Tok::Alt(vec![vec![Tok::lit(&name)], vec![Tok::lit(&swapped)]])),
                    1 => {
                        let mut cs = name.chars();
                        let f = cs.next().unwrap_or('a');
                        let rest: String = cs.collect();
                        let g: char = if f.is_uppercase() { f.to_lowercase().next().unwrap_or(f) } else { f.to_uppercase().next().unwrap_or(f) };
                        if g != f && f != '-' && g != '-' {
                            glob.push(Tok::Class { neg: false, items: vec![Item::Ch(f), Item::Ch(g)] });
                            if !rest.is_empty() {
                                glob.push(Tok::lit(&rest));
                            }
                        }
                        else {
                            glob.push(Tok::Lit { text: name.clone(), ci: true });
                        }
                    },
                    _ => glob.push(Tok::Lit { text: name.clone(), ci: true }),
                }
                glob.push(Tok::Sep);
                match t.below(3) {
                    0 => glob.push(Tok::Zom { lazy: false }),
                    1 => glob.push(Tok::Tree { lead: false, trail: false }),
                    _ => {
                        glob.push(Tok::Zom { lazy: false });
                        glob.push(Tok::Sep);
                        glob.push(Tok::Zom { lazy: false });
                    },
                }
                return Case { tree, base: Base::Abs, shape: Shape::Plain, glob: normalize(&glob, true), follow };
            }
        }
        if t.chance(20) {
            // mid-component family: an invariant branch that spans a separator and ends *inside* a
            // component, then a wildcard (`{a/b}*`, `<a/b:1>*`, `a{/b}*`): the walk may start at
            // `a`, never at `a/b`
            let deep: Vec<String> = tree
                .nodes
                .iter()
                .map(|n| n.path.clone())
                .filter(|p| p.contains('/') && !p.contains(RAW) && !p.contains('\\') && !p.contains('\n'))
                .collect();
            if !deep.is_empty() {
                let d = t.pick(&deep);
                let mut it = d.split('/');
                let c1 = it.next().unwrap_or("a").to_string();
                let c2 = it.next().unwrap_or("b").to_string();
                if c1 != "." && c1 != ".." && c2 != "." && c2 != ".." {
                    let n2 = c2.chars().count();
                    let k: String = c2.chars().take(1 + t.below(n2)).collect();
                    let mut tree = tree;
                    for (extra, kind) in [(format!("{}/{}q", c1, k), Kind::File), (format!("{}/{}", c1, k), Kind::Dir), (format!("{}/{}/w", c1, k), Kind::File)] {
                        if !tree.nodes.iter().any(|n| n.path == extra) && tree.nodes.iter().all(|n| n.kind == Kind::Dir || !extra.starts_with(&format!("{}/", n.path))) {
                            tree.nodes.push(Node { path: extra, kind, unreadable: false });
                        }
                    }
                    let inner = vec![Tok::lit(&c1), Tok::Sep, Tok::lit(&k)];
                    let mut glob = match t.below(4) {
                        0 => vec![Tok::Alt(vec![inner])],
                        1 => vec![Tok::Rep { body: inner, lo: 1, hi: Some(1), spell: t.below(2) as u8 }],
                        2 => vec![Tok::lit(&c1), Tok::Alt(vec![vec![Tok::Sep, Tok::lit(&k)]])],
                        _ => vec![Tok::Alt(vec![inner.clone(), inner])],
                    };
                    glob.push(Tok::Zom { lazy: false });
                    match t.below(3) {
                        0 => {},
                        1 => glob.push(Tok::Tree { lead: true, trail: false }),
                        _ => {
                            glob.push(Tok::Sep);
                            glob.push(Tok::Zom { lazy: false });
                        },
                    }
                    return Case { tree, base: Base::Abs, shape: Shape::Plain, glob: normalize(&glob, true), follow };
                }
            }
        }
        Case { tree, base, shape, glob, follow }
    }
    fn directed(&self) -> Vec<Case> {
        let tree = TreeSpec {
            nodes: vec![
                Node { path: "a".into(), kind: Kind::Dir, unreadable: false },
                Node { path: "a/b".into(), kind: Kind::Dir, unreadable: false },
                Node { path: "a/b/c".into(), kind: Kind::File, unreadable: false },
                Node { path: "a/x".into(), kind: Kind::File, unreadable: false },
                Node { path: "f".into(), kind: Kind::File, unreadable: false },
            ],
        };
        let star = || Tok::Zom { lazy: false };
        vec![
            Case { tree: tree.clone(), base: Base::Abs, shape: Shape::Rooted, glob: vec![star(), Tok::Sep, star(), Tok::Sep, star()], follow: false },
            Case { tree: tree.clone(), base: Base::Sub("a".into()), shape: Shape::Dots(vec!["..".into()]), glob: vec![Tok::Tree { lead: false, trail: false }], follow: false },
            Case { tree: tree.clone(), base: Base::Abs, shape: Shape::Dots(vec![".".into(), "a".into()]), glob: vec![star()], follow: false },
            Case { tree, base: Base::Abs, shape: Shape::Prefixed("a/b".into(), 0), glob: vec![star()], follow: false },
        ]
    }
    fn shrink(&self, c: &Case) -> Vec<Case> {
        let mut out = Vec::new();
        // drop a node (and its descendants)
        for i in (0..c.tree.nodes.len()).rev() {
            let p = &c.tree.nodes[i].path;
            if let Shape::Prefixed(d, _) = &c.shape {
                if d == p || d.starts_with(&format!("{}/", p)) || d.ends_with(p.as_str()) {
                    continue;
                }
            }
            if let Base::Sub(d) = &c.base {
                if d == p || d.starts_with(&format!("{}/", p)) {
                    continue;
                }
            }
            if let Shape::Dots(comps) = &c.shape {
                if comps.iter().any(|x| x == p) {
                    continue;
                }
            }
            let nodes: Vec<Node> = c.tree.nodes.iter().filter(|n| n.path != *p && !n.path.starts_with(&format!("{}/", p))).cloned().collect();
            out.push(Case { tree: TreeSpec { nodes }, base: c.base.clone(), shape: c.shape.clone(), glob: c.glob.clone(), follow: c.follow });
        }
        for e in shrink_expr(&c.glob) {
            out.push(Case { tree: c.tree.clone(), base: c.base.clone(), shape: c.shape.clone(), glob: normalize(&e, true), follow: c.follow });
        }
        if c.base != Base::Abs && !matches!(c.base, Base::Sub(_)) {
            out.push(Case { tree: c.tree.clone(), base: Base::Abs, shape: c.shape.clone(), glob: c.glob.clone(), follow: c.follow });
        }
        out
    }
    fn extra(&self, tier: Tier, st: &mut Stats) -> Result<(), (Case, String)> {
        // walks from the current directory (`.` and `./`): sequential, because the working
        // directory is process-wide
        let n = match tier {
            Tier::Quick => 300u64,
            Tier::Thorough => 4000,
        };
        for k in 0..n {
            let bytes = fixed_tape(k, self.tape_len());
            let mut t = Tape::new(&bytes);
            let mut case = self.decode(&mut t);
            if matches!(case.base, Base::Sub(_) | Base::Parent) {
                let b2 = fixed_tape(k + 1_000_000, 64);
                let mut t2 = Tape::new(&b2);
                case.shape = gen_shape(&mut t2, &case.tree, &Base::Abs);
            }
            case.base = Base::Cwd(k % 2 == 1);
            if let Err(m) = self.check(&case, st) {
                return Err((case, m));
            }
        }
        Ok(())
    }
    fn check(&self, case: &Case, st: &mut Stats) -> CheckResult {
        let s = match Scratch::create(&case.tree) {
            Ok(s) => s,
            Err(e) => {
                st.count("scratch_failed");
                let _ = e;
                return Ok(());
            },
        };
        let (base_given, base_abs) = base_paths(&case.base, &s);
        if !base_abs.is_dir() {
            st.count("base_missing");
            return Ok(());
        }
        let _cwd = enter_cwd(&case.base, &s);
        if matches!(case.base, Base::Cwd(_)) {
            if _cwd.is_none() {
                return Ok(());
            }
            st.count("walks_from_current_directory");
        }
        let root_abs = s.root.to_string_lossy().to_string();
        let expr = full_glob(&case.shape, &case.glob, &root_abs);
        let text = render_text(&expr);
        let glob = match build(&text) {
            Ok(Ok(g)) => g,
            Ok(Err(_)) => {
                st.count("not_built");
                return Ok(());
            },
            Err(_) => {
                st.panicked += 1;
                return Ok(());
            },
        };
        // the deliberate dot components of shape Dots are the only ones allowed: anything else —
        // also spelled as `[.]`, `{..}`, `<.:2>`, which are invariant text and land in the prefix
        // just the same — is skipped (the candidate text of every entry must be known by
        // construction, and a stray `..` must never lead out of the scratch directory)
        let deliberate = match &case.shape {
            Shape::Dots(c) => c.iter().filter(|x| *x == "." || *x == "..").count(),
            _ => 0,
        };
        if text.split(|c| "/{},<>:".contains(c)).any(|c| c == "." || c == "..") && !matches!(case.shape, Shape::Dots(_))
            || crate::props::c12::has_dot_component(&case.glob).0
            || prefix_dot_components(&glob) != deliberate
        {
            // `.` / `..` components are only placed deliberately (shape Dots), where the candidate
            // text of every entry is known by construction
            st.count("skipped_incidental_dot_component");
            return Ok(());
        }
        if (case.shape != Shape::Rooted && starts_rooting_expr(&strip_flags(&expr))) || has_sep_class(&expr) {
            // never walk the real file system root
            st.count("skipped_rooted_outside_scratch");
            return Ok(());
        }
        match &case.shape {
            Shape::Plain => st.count("shape_plain"),
            Shape::Prefixed(..) => st.count("shape_prefixed"),
            Shape::Rooted => st.count("shape_rooted"),
            Shape::Dots(_) => st.count("shape_dots"),
        }
        if !matches!(case.base, Base::Abs | Base::Sub(_) | Base::Parent) {
            st.count("base_noncanonical");
        }
        // outside the domain: the invariant prefix of the glob passes through a symbolic link
        // (walkdir follows a root link by design)
        {
            let (pre, _) = glob.clone().partition();
            let mut p = if case.shape == Shape::Rooted { std::path::PathBuf::new() } else { base_abs.clone() };
            for c in pre.components() {
                p = p.join(c);
                if std::fs::symlink_metadata(&p).map(|m| m.file_type().is_symlink()).unwrap_or(false) {
                    st.count("skipped_link_in_prefix");
                    return Ok(());
                }
            }
        }
        if case.tree.nodes.iter().any(|n| matches!(n.kind, Kind::Link(_) | Kind::Dangling)) {
            st.count("trees_with_links");
        }
        {
            // a caseless literal component and a directory that matches it only in another casing
            let comps = crate::props::stacks::plain_components(&expr);
            let hit = case.tree.nodes.iter().filter(|n| n.kind == Kind::Dir).any(|n| {
                let names: Vec<&str> = n.path.split('/').collect();
                let j = names.len() - 1;
                match comps.get(j).map(|c| c.as_slice()) {
                    Some([Tok::Lit { text, ci: true }]) => text != names[j] && text.to_lowercase() == names[j].to_lowercase(),
                    _ => false,
                }
            });
            if hit {
                st.count("caseless_component_other_casing");
            }
        }
        // expected
        let uni = if case.follow {
            // where the walk starts matters for which links re-enter an ancestor: the reference
            // traversal starts where the walk does — at the base joined with the invariant prefix
            let (pre, _) = glob.clone().partition();
            let pre_text = pre.to_string_lossy().trim_end_matches('/').to_string();
            let rooted = case.shape == Shape::Rooted;
            let (start_given, start_abs) = if rooted {
                (std::path::PathBuf::from(&pre_text), std::path::PathBuf::from(&pre_text))
            }
            else if pre_text.is_empty() {
                (base_given.clone(), base_abs.clone())
            }
            else {
                (base_given.join(&pre_text), base_abs.join(&pre_text))
            };
            if rooted && !start_abs.starts_with(&s.top) {
                st.count("skipped_rooted_outside_scratch");
                return Ok(());
            }
            if !start_abs.is_dir() {
                st.count("read_target_start_not_a_directory");
                return Ok(());
            }
            ref_walk(&start_abs, true)
                .into_iter()
                .map(|it| {
                    let rel = it.rel().to_string();
                    let p = if rel.is_empty() { norm(&start_given) } else { norm(&start_given.join(&rel)) };
                    let cand = if rooted {
                        (if rel.is_empty() { start_abs.clone() } else { start_abs.join(&rel) }).to_string_lossy().to_string()
                    }
                    else if pre_text.is_empty() {
                        rel.clone()
                    }
                    else if rel.is_empty() {
                        pre_text.clone()
                    }
                    else {
                        format!("{}/{}", pre_text, rel)
                    };
                    (p, cand, it)
                })
                .collect()
        }
        else {
            universe(&case.shape, &s, &base_given, &base_abs, false)
        };
        if case.follow {
            st.count("read_target_walks");
        }
        // under ReadTarget re-entrant and dangling links are error items also on a fault-free tree
        let link_errors: std::collections::BTreeSet<String> = uni.iter().filter(|x| matches!(x.2, RefItem::Error { .. })).map(|x| x.0.clone()).collect();
        let mut expected: BTreeMap<String, usize> = BTreeMap::new();
        // the base itself (or the start directory of a dot-prefixed glob, which is not beneath
        // the base) may be yielded if the glob matches its candidate text, but need not be
        let mut optional: Option<String> = None;
        let total = uni.len();
        for (p, cand, it) in &uni {
            if let RefItem::Entry { .. } = it {
                if glob.is_match(cand.as_str()) {
                    if it.rel().is_empty() && case.shape != Shape::Rooted {
                        optional = Some(p.clone());
                        st.count("walk_root_expected");
                        continue;
                    }
                    *expected.entry(p.clone()).or_insert(0) += 1;
                }
            }
        }
        // actual
        let walked = guard(|| {
            if case.follow {
                drain(glob.walk_with_behavior(base_given.clone(), wax::walk::LinkBehavior::ReadTarget), 10 * total + 100)
            }
            else {
                drain(glob.walk(base_given.clone()), 10 * total + 100)
            }
        });
        let (seen, capped) = match walked {
            Ok(x) => x,
            Err(m) => {
                return Err(format!("glob `{}` walked from {:?}: the walk panicked: {}", text, case.base, m));
            },
        };
        st.count("walks");
        st.eval(1);
        if capped {
            return Err(format!("glob `{}`: the walk did not terminate within {} items on a tree of {} entries", text, 10 * total + 100, total));
        }
        let mut actual: BTreeMap<String, usize> = BTreeMap::new();
        for it in &seen {
            match it {
                Seen::Ok { path, .. } => {
                    if Some(path) == optional.as_ref() && !actual.contains_key(path) && !expected.contains_key(path) {
                        st.count("walk_root_yielded");
                        optional = None;
                        continue;
                    }
                    *actual.entry(path.clone()).or_insert(0) += 1
                },
                Seen::Err { path: Some(p), .. } if case.follow && link_errors.contains(p) => {
                    st.count("link_error_under_read_target");
                },
                Seen::Err { path: Some(p), .. } if !std::path::Path::new(p).is_dir() => {
                    // the invariant prefix names something that is not a directory (e.g. the glob
                    // `a/` where `a` is a file): opening it as the walk root fails, and
                    // the invariant prefix of the glob names a directory that does not exist
                    st.count("missing_start_error_tolerated");
                },
                Seen::Err { path, .. } => {
                    return Err(format!("glob `{}` walked from {:?} ({:?}): error item for {:?} on a fault-free tree", text, case.base, base_given, path));
                },
            }
        }
        if actual != expected {
            let missing: Vec<&String> = expected.keys().filter(|k| !actual.contains_key(*k)).collect();
            let extra: Vec<&String> = actual.keys().filter(|k| !expected.contains_key(*k)).collect();
            let dup: Vec<&String> = actual.iter().filter(|(_, n)| **n > 1).map(|x| x.0).collect();
            if let Some(f) = classify(&case.shape, &expr, &missing, &extra, &dup) {
                st.known(f, || format!("`{}` from {:?}: missing {:?}", text, case.base, missing));
            }
            else {
                return Err(format!(
                    "glob `{}` walked from base {:?} = {:?} (shape {:?}): missing {:?}, unexpected {:?}, duplicated {:?} (expected {} entries, got {})",
                    text, case.base, base_given, case.shape, missing, extra, dup, expected.len(), actual.len()
                ));
            }
        }
        // a later call on the value that has walked: partitioned now, the postfix walked from
        // base + prefix must yield the same entries (whatever the first walk left in the glob)
        if actual == expected && !case.follow && matches!(case.shape, Shape::Prefixed(..) | Shape::Plain) && !text.contains("(?") {
            if let Ok((pre, Some(post))) = guard(|| glob.clone().partition()) {
                let start = base_given.join(&pre);
                if !pre.as_os_str().is_empty() && std::fs::symlink_metadata(&start).map(|m| m.is_dir()).unwrap_or(false) {
                    let start_n = norm(&start);
                    let again = guard(|| drain(post.walk(start.clone()), 10 * total + 100));
                    if let Ok((seen2, false)) = again {
                        st.count("partitioned_after_walk");
                        st.eval(1);
                        let mut second: BTreeMap<String, usize> = BTreeMap::new();
                        for it in &seen2 {
                            if let Seen::Ok { path, .. } = it {
                                if *path != start_n {
                                    *second.entry(path.clone()).or_insert(0) += 1;
                                }
                            }
                        }
                        let mut first = actual.clone();
                        first.remove(&start_n);
                        if first != second {
                            let missing: Vec<&String> = first.keys().filter(|k| !second.contains_key(*k)).collect();
                            let extra: Vec<&String> = second.keys().filter(|k| !first.contains_key(*k)).collect();
                            return Err(format!(
                                "glob `{}` walked from {:?}, then partitioned into ({:?}, `{}`): the postfix walked from {:?} yields other entries than the glob did — missing {:?}, unexpected {:?}",
                                text, base_given, pre, post, start, missing, extra
                            ));
                        }
                    }
                }
            }
        }
        // pruning statistics + pure-path component program sub-check
        let progs: Vec<regex::Regex> = glob.verif_walk_component_patterns().iter().filter_map(|p| regex::Regex::new(p).ok()).collect();
        let mut pruned = 0;
        for (_, cand, it) in &uni {
            if let RefItem::Entry { is_link: true, .. } = it {
                let comps: Vec<&str> = cand.split('/').filter(|c| !c.is_empty()).collect();
                if let Some(last) = comps.len().checked_sub(1) {
                    if last < progs.len() && !progs[last].is_match(comps[last]) {
                        st.count("pruned_links");
                    }
                }
            }
            if let RefItem::Entry { is_dir: true, .. } = it {
                let comps: Vec<&str> = cand.split('/').filter(|c| !c.is_empty()).collect();
                if let Some(last) = comps.len().checked_sub(1) {
                    if last < progs.len() && !progs[last].is_match(comps[last]) {
                        pruned += 1;
                    }
                }
            }
            // every match passes every component program
            if glob.is_match(cand.as_str()) {
                let comps: Vec<&str> = cand.split('/').filter(|c| !c.is_empty()).collect();
                for (i, c) in comps.iter().enumerate() {
                    if i < progs.len() {
                        st.count("component_program_checks");
                        if !progs[i].is_match(c) {
                            return Err(format!(
                                "glob `{}` matches {:?}, but its walk component program {} (`{}`) rejects the component {:?}: the walk would prune a match",
                                text, cand, i, progs[i].as_str(), c
                            ));
                        }
                    }
                }
            }
        }
        if pruned > 0 {
            st.add("pruned_directories", pruned);
        }
        let levels = case.tree.nodes.iter().map(|n| n.path.matches('/').count() + 1).max().unwrap_or(0);
        if levels >= 2 && has_nonliteral(&expr) && !expected.is_empty() && expected.len() < total {
            let key = format!("{:?}|{:?}|{}", case.tree, case.base, text);
            st.nontrivial(&key, || {
                json!({"glob": text, "base": format!("{:?}", case.base), "shape": format!("{:?}", case.shape),
                       "tree": case.tree.nodes.iter().map(|n| n.path.clone()).collect::<Vec<_>>(),
                       "yielded": expected.keys().collect::<Vec<_>>()})
            });
        }
        Ok(())
    }
}

fn classify(shape: &Shape, _expr: &Expr, missing: &[&String], extra: &[&String], dup: &[&String]) -> Option<&'static str> {
    if !extra.is_empty() || !dup.is_empty() || missing.is_empty() {
        return None;
    }
    match shape {
        Shape::Dots(comps) if comps.iter().any(|c| c == ".") && crate::findings::is_open("F-WALK-DOT", "C02") => Some("F-WALK-DOT"),
        _ => None,
    }
}
