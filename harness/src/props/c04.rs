//! C04 — Captures are consistent with the match and with the expression.
//!
//! oracle: the reported captures must be a valid decomposition of the path — the reference
//! matcher is re-run on the top-level concatenation with every capturing token *forced* to occupy
//! exactly the reported span; plus the structural clauses (index range, order, no separator in
//! `?`/`*`/`$`/class captures, tree captures on component boundaries, owned == borrowed).

use crate::ast::*;
use crate::engine::*;
use crate::gen::*;
use crate::props::common::*;
use crate::refmatch::{to_chars, Matcher, Quirks};
use serde::{Deserialize, Serialize};
use serde_json::json;
use wax::{CandidatePath, Program};

pub struct C04;

#[derive(Serialize, Deserialize, Clone, Debug)]
pub struct Case {
    pub expr: Expr,
    pub paths: Vec<String>,
}

fn byte_to_char(p: &str, b: usize) -> usize {
    p[..b].chars().count()
}

impl Property for C04 {
    type Case = Case;
    fn id(&self) -> &'static str {
        "C04"
    }
    fn rule(&self) -> String {
        "rule-aware glob ASTs with capturing top-level tokens x witness-heavy path pools x capture \
         indices 0..=n+2; one evaluation = one (glob, path); non-trivial = the glob has >= 2 \
         capturing tokens, the path matches and at least one capture is non-empty; distinct by \
         (text, path)"
            .into()
    }
    fn assumptions(&self) -> Vec<String> {
        vec![
            "a tree wildcard that does not participate may report no capture (None) or an empty one".into(),
            "the decomposition is judged in the lenient reading of the reference (empty components etc. are allowed inside a tree wildcard's run); absorbed separators may or may not be part of a tree wildcard's capture".into(),
        ]
    }
    fn budget(&self, tier: Tier) -> (u32, u32) {
        match tier {
            Tier::Quick => (4000, 8),
            Tier::Thorough => (200000, 16),
        }
    }
    fn required_counters(&self) -> Vec<&'static str> {
        vec!["matched_paths", "tree_capture", "nonparticipating_capture", "owned_compared", "out_of_range_index_probed"]
    }
    fn decode(&self, t: &mut Tape) -> Case {
        let mut cfg = GenCfg::default();
        cfg.weights = [24, 14, 8, 12, 11, 9, 12, 10];
        let expr = gen_expr(t, &cfg);
        let text = render_text(&expr);
        let pat = pattern_of(&text);
        let paths = path_pool(t, &expr, pat.as_deref(), 2);
        Case { expr, paths }
    }
    fn directed(&self) -> Vec<Case> {
        vec![Case {
            expr: vec![
                Tok::Tree { lead: true, trail: true },
                Tok::Alt(vec![vec![Tok::lit("var")], vec![Tok::lit(".var")]]),
                Tok::Sep,
                Tok::Zom { lazy: false },
            ],
            paths: vec!["/home/nobody/.var/x.log".into(), "/var/x".into()],
        },
        // candidate paths longer than 64 KiB: offsets of captures do not fit sixteen bits
        Case { expr: vec![Tok::Zom { lazy: false }], paths: vec!["a".repeat(65_536), "é".repeat(35_000)] },
        Case { expr: vec![Tok::One, Tok::Zom { lazy: false }], paths: vec!["a".repeat(65_536)] },
        Case {
            expr: vec![Tok::lit("a"), Tok::Zom { lazy: false }, Tok::Sep, Tok::Zom { lazy: false }, Tok::lit("b")],
            paths: vec![format!("{}/{}", "a".repeat(40_000), "b".repeat(40_000))],
        },
        Case {
            expr: vec![Tok::Tree { lead: false, trail: true }, Tok::Zom { lazy: false }],
            paths: vec![format!("{}x", "d/".repeat(33_000))],
        }]
    }
    fn shrink(&self, c: &Case) -> Vec<Case> {
        let mut out = Vec::new();
        if c.paths.len() > 1 {
            for p in &c.paths {
                out.push(Case { expr: c.expr.clone(), paths: vec![p.clone()] });
            }
        }
        for e in shrink_expr(&c.expr) {
            out.push(Case { expr: normalize(&e, true), paths: c.paths.clone() });
        }
        out
    }
    fn check(&self, case: &Case, st: &mut Stats) -> CheckResult {
        let text = render_text(&case.expr);
        let glob = match build(&text) {
            Ok(Ok(g)) => g,
            Ok(Err(_)) => {
                st.count("not_built");
                return Ok(());
            },
            Err(_) => {
                st.panicked += 1;
                return Ok(());
            },
        };
        let e = strip_flags(&case.expr);
        let cap_toks: Vec<usize> = (0..e.len()).filter(|i| e[*i].is_capturing()).collect();
        let n = cap_toks.len();
        // (3) captures(): one entry per top-level capturing token, indices 1..=n, spans ascending
        let caps: Vec<(usize, (usize, usize))> = glob.captures().map(|c| (c.index(), c.span())).collect();
        if caps.len() != n {
            return Err(format!(
                "`{}`: captures() reports {} capturing tokens, the expression has {} at top level",
                text,
                caps.len(),
                n
            ));
        }
        for (k, (idx, span)) in caps.iter().enumerate() {
            if *idx != k + 1 {
                return Err(format!("`{}`: captures()[{}].index() = {}", text, k, idx));
            }
            if k > 0 && caps[k - 1].1 .0 + caps[k - 1].1 .1 > span.0 {
                return Err(format!("`{}`: capture spans not ascending: {:?}", text, caps));
            }
        }
        // F-ROOT-TREE trigger: some concatenation (at any depth) begins with a rooted tree wildcard
        // that is followed by something
        fn rooted_first(e: &Expr) -> bool {
            // a rooted tree wildcard that begins the expression, possibly through branches that
            // begin it
            (matches!(e.first(), Some(Tok::Tree { lead: true, .. })) && e.len() > 1)
                || match e.first() {
                    Some(Tok::Alt(bs)) => bs.iter().any(rooted_first),
                    Some(Tok::Rep { body, .. }) => rooted_first(body),
                    _ => false,
                }
        }
        let first_rooted_tree = rooted_first(&e);
        let top_rooted_tree = matches!(e.first(), Some(Tok::Tree { lead: true, .. })) && e.len() > 1;
        for p in &case.paths {
            st.eval(1);
            let cand = CandidatePath::from(p.as_str());
            let r = guard(|| {
                let is = glob.is_match(p.as_str());
                let m = glob.matched(&cand);
                (is, m)
            });
            let (is, m) = match r {
                Ok(x) => x,
                Err(_) => {
                    st.panicked += 1;
                    continue;
                },
            };
            // (1)
            if is != m.is_some() {
                return Err(format!("`{}` on {:?}: is_match = {} but matched().is_some() = {}", text, p, is, m.is_some()));
            }
            let m = match m {
                Some(m) => m,
                None => continue,
            };
            st.count("matched_paths");
            // (2)
            if m.get(0) != Some(p.as_str()) || m.complete() != p.as_str() {
                return Err(format!("`{}` on {:?}: capture 0 = {:?}, complete() = {:?}", text, p, m.get(0), m.complete()));
            }
            // out-of-range
            for i in n + 1..=n + 2 {
                st.count("out_of_range_index_probed");
                if let Some(x) = m.get(i) {
                    return Err(format!("`{}` on {:?}: capture {} is out of range (n = {}) but is {:?}", text, p, i, n, x));
                }
            }
            // (6) owned == borrowed
            let owned_result = guard(|| -> Result<(), String> {
                let o1 = m.to_owned();
                for i in 0..=n + 2 {
                    if o1.get(i) != m.get(i) {
                        return Err(format!("`{}` on {:?}: to_owned().get({}) = {:?}, borrowed = {:?}", text, p, i, o1.get(i), m.get(i)));
                    }
                }
                let borrowed: Vec<Option<String>> = (0..=n + 2).map(|i| m.get(i).map(String::from)).collect();
                let m2 = glob.matched(&cand).unwrap();
                let o2 = m2.into_owned();
                for i in 0..=n + 2 {
                    if o2.get(i).map(String::from) != borrowed[i] {
                        return Err(format!("`{}` on {:?}: into_owned().get({}) = {:?}, borrowed = {:?}", text, p, i, o2.get(i), borrowed[i]));
                    }
                }
                let o3 = o1.to_owned();
                for i in 0..=n + 2 {
                    if o3.get(i).map(String::from) != borrowed[i] {
                        return Err(format!("`{}` on {:?}: owned.to_owned().get({}) differs", text, p, i));
                    }
                }
                if o1.complete() != p.as_str() || o1.to_candidate_path().as_ref() != p.as_str() {
                    return Err(format!("`{}` on {:?}: owned complete()/to_candidate_path() differ", text, p));
                }
                Ok(())
            });
            match owned_result {
                Ok(Ok(())) => st.count("owned_compared"),
                Ok(Err(m)) => return Err(m),
                Err(msg) => {
                    return Err(format!(
                        "`{}` on {:?}: reading the owned matched text panicked ({}), while the borrowed text it was made from answers every index 0..={}",
                        text, p, msg, n + 2
                    ));
                },
            }
            // offsets
            let base = cand.as_ref().as_ptr() as usize;
            let plen = p.len();
            let mut spans: Vec<Option<(usize, usize)>> = Vec::new();
            let mut nonempty = false;
            // Where the captured slices alias the candidate (the borrowed matched text does), their
            // own positions are judged.  The API does not promise aliasing, though: if any capture
            // lies elsewhere (an owning matched text, a static empty string for a group that did
            // not take part), the captures are judged by content — the reference matcher must find
            // *some* placement, in order and without overlap, of exactly these texts.
            let aliasing = (1..=n).all(|i| match m.get(i) {
                None => true,
                Some(s) => {
                    let off = (s.as_ptr() as usize).wrapping_sub(base);
                    off <= plen && off + s.len() <= plen && &p[off..off + s.len()] == s
                },
            });
            if !aliasing {
                st.count("captures_judged_by_content");
                let pc = to_chars(p);
                let mut forced: Vec<Option<Vec<Vec<char>>>> = vec![None; e.len()];
                for (k, ti) in cap_toks.iter().enumerate() {
                    let s = match m.get(k + 1) {
                        Some(s) => s,
                        None => continue,
                    };
                    if !p.contains(s) {
                        return Err(format!("`{}` on {:?}: capture {} = {:?} is not a substring of the path", text, p, k + 1, s));
                    }
                    match &e[*ti] {
                        Tok::One | Tok::Zom { .. } | Tok::Class { .. } if s.contains('/') => {
                            return Err(format!("`{}` on {:?}: capture {} of {:?} contains a separator: {:?}", text, p, k + 1, e[*ti], s));
                        },
                        Tok::Tree { .. } => {
                            // the token may absorb a separator on either side that the capture leaves out;
                            // an empty capture may also stand for a wildcard that did not take part
                            let c: Vec<char> = s.chars().collect();
                            let mut v = vec![c.clone()];
                            let mut a = vec!['/'];
                            a.extend(c.iter());
                            v.push(a.clone());
                            let mut b = c.clone();
                            b.push('/');
                            v.push(b);
                            a.push('/');
                            v.push(a);
                            forced[*ti] = Some(v);
                        },
                        _ => forced[*ti] = Some(vec![s.chars().collect()]),
                    }
                }
                let mut mm = Matcher::new(&pc, true);
                mm.forced_text = Some(&forced);
                let mut ok = mm.is_match(&e);
                if !ok && first_rooted_tree && crate::findings::is_open("F-ROOT-TREE", "C04") {
                    let mut mq = Matcher::new(&pc, true);
                    mq.forced_text = Some(&forced);
                    mq.quirks = Quirks { root_tree: true };
                    if mq.is_match(&e) {
                        ok = true;
                        st.known("F-ROOT-TREE", || format!("`{}` on {:?}: captures {:?}", text, p, (1..=n).map(|i| m.get(i)).collect::<Vec<_>>()));
                    }
                }
                if !ok {
                    return Err(format!(
                        "`{}` on {:?}: captures {:?} are not a valid decomposition of the path (no reference match lets the capturing sub-expressions consume these texts in order)",
                        text,
                        p,
                        (1..=n).map(|i| m.get(i)).collect::<Vec<_>>()
                    ));
                }
                continue;
            }
            for i in 1..=n {
                match m.get(i) {
                    None => {
                        spans.push(None);
                        st.count("nonparticipating_capture");
                    },
                    Some(s) => {
                        let off = (s.as_ptr() as usize).wrapping_sub(base);
                        if !s.is_empty() {
                            nonempty = true;
                        }
                        spans.push(Some((off, off + s.len())));
                    },
                }
            }
            // order / overlap
            let mut last_end = 0usize;
            for (k, sp) in spans.iter().enumerate() {
                if let Some((s, e2)) = sp {
                    if *s < last_end {
                        return Err(format!("`{}` on {:?}: capture {} at {:?} overlaps or precedes an earlier capture (end {})", text, p, k + 1, sp, last_end));
                    }
                    last_end = *e2;
                }
            }
            let pc = to_chars(p);
            let boundary = |c: usize| c == 0 || c == pc.len() || pc[c - 1] == '/' || pc[c] == '/';
            // (5) and forced spans
            let mut forced_variants: Vec<Vec<Option<(usize, usize)>>> = vec![vec![None; e.len()]];
            let mut known_root_tree = false;
            for (k, ti) in cap_toks.iter().enumerate() {
                let sp = match spans[k] {
                    Some(sp) => sp,
                    None => {
                        if !matches!(e[*ti], Tok::Tree { .. }) {
                            return Err(format!(
                                "`{}` on {:?}: capture {} (token {:?}) does not participate although the path matches",
                                text, p, k + 1, e[*ti]
                            ));
                        }
                        continue;
                    },
                };
                let (cs, ce) = (byte_to_char(p, sp.0), byte_to_char(p, sp.1));
                match &e[*ti] {
                    Tok::One | Tok::Zom { .. } | Tok::Class { .. } => {
                        if p[sp.0..sp.1].contains('/') {
                            return Err(format!("`{}` on {:?}: capture {} of {:?} contains a separator: {:?}", text, p, k + 1, e[*ti], &p[sp.0..sp.1]));
                        }
                        for v in forced_variants.iter_mut() {
                            v[*ti] = Some((cs, ce));
                        }
                    },
                    Tok::Tree { .. } => {
                        st.count("tree_capture");
                        if !(boundary(cs) && boundary(ce)) {
                            if *ti == 0 && top_rooted_tree && crate::findings::is_open("F-ROOT-TREE", "C04") {
                                known_root_tree = true;
                            }
                            else {
                                return Err(format!(
                                    "`{}` on {:?}: tree wildcard capture {} = {:?} does not begin and end on component boundaries",
                                    text, p, k + 1, &p[sp.0..sp.1]
                                ));
                            }
                        }
                        let mut starts = vec![cs];
                        if cs > 0 && pc[cs - 1] == '/' {
                            starts.push(cs - 1);
                        }
                        let mut ends = vec![ce];
                        if ce < pc.len() && pc[ce] == '/' {
                            ends.push(ce + 1);
                        }
                        let mut next = Vec::new();
                        for v in &forced_variants {
                            for s in &starts {
                                for en in &ends {
                                    let mut v2 = v.clone();
                                    v2[*ti] = Some((*s, *en));
                                    next.push(v2);
                                }
                            }
                        }
                        forced_variants = next;
                    },
                    _ => {
                        for v in forced_variants.iter_mut() {
                            v[*ti] = Some((cs, ce));
                        }
                    },
                }
            }
            // (4) constrained reference match
            if forced_variants.len() <= 256 {
                let mut ok = false;
                for v in &forced_variants {
                    let mut mm = Matcher::new(&pc, true);
                    mm.forced = Some(v);
                    if mm.is_match(&e) {
                        ok = true;
                        break;
                    }
                }
                if !ok && first_rooted_tree && crate::findings::is_open("F-ROOT-TREE", "C04") {
                    for v in &forced_variants {
                        let mut mm = Matcher::new(&pc, true);
                        mm.forced = Some(v);
                        mm.quirks = Quirks { root_tree: true };
                        if mm.is_match(&e) {
                            ok = true;
                            known_root_tree = true;
                            break;
                        }
                    }
                }
                if !ok {
                    let shown: Vec<Option<&str>> = (1..=n).map(|i| m.get(i)).collect();
                    return Err(format!(
                        "`{}` on {:?}: captures {:?} are not a valid decomposition of the path (no reference match places the capturing sub-expressions on these spans)",
                        text, p, shown
                    ));
                }
            }
            else {
                st.count("too_many_tree_variants_skipped");
            }
            if known_root_tree {
                st.known("F-ROOT-TREE", || format!("`{}` on {:?}: capture 1 = {:?}", text, p, m.get(1)));
            }
            if n >= 2 && nonempty {
                st.nontrivial(&(text.as_str(), p.as_str()), || {
                    let shown: Vec<Option<&str>> = (0..=n).map(|i| m.get(i)).collect();
                    json!({"glob": text, "path": p, "captures": shown})
                });
            }
        }
        Ok(())
    }
}
