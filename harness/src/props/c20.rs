//! C20 — I/O faults during a walk are reported, isolated and never swallowed.
//!
//! Fault enumeration: for every generated tree the fault sites (directories that can be made
//! unreadable, dangling links, links that re-enter an ancestor) are enumerated exhaustively for
//! 0, 1 and 2 simultaneous faults (plus one larger subset); each placement is walked bare, under
//! a keep-everything stack and under a discarding stack.

use crate::engine::*;
use crate::fsmodel::*;
use crate::gen::*;
use crate::props::c03::{collect, Item};
use crate::props::c13::gen_under;
use crate::props::fscommon::*;
use crate::props::stacks::*;
use serde::{Deserialize, Serialize};
use serde_json::json;
use std::collections::BTreeMap;
use wax::Program;
use wax::walk::{LinkBehavior, PathExt, WalkBehavior};

pub struct C20;

#[derive(Serialize, Deserialize, Clone, Debug, PartialEq)]
pub enum Site {
    /// chmod 000 on this directory ("" = the walk base itself)
    Unreadable(String),
    /// a dangling link inside this directory (named `zd`, `0d`, `.d`, `md` or `Ad`, by directory)
    Dangling(String),
    /// a link (`zr`, `0r`, `.r` or `mr`) inside this directory to the directory `up` levels above it
    Reentrant(String, usize),
    /// a link (`zu`, `0u`, `.u` or `mu`) inside the first directory to the second directory, which
    /// is made unreadable and is neither the first directory nor one of its ancestors: read as a
    /// file the link is a leaf; read as its target it is a directory that cannot be read
    #[serde(alias = "LinkUnreadable")]
    LinkUnreadable(String, String),
    /// not a fault: a link (`zl`, `0l`, `.l` or `ml`) inside the first directory to the second,
    /// readable directory (neither the first directory nor one of its ancestors) — read as its
    /// target it is a second way into that directory and to the faults beneath it
    LinkTo(String, String),
}

#[derive(Serialize, Deserialize, Clone, Debug)]
pub struct Case {
    /// fault-free tree without links
    pub tree: TreeSpec,
    pub sites: Vec<Site>,
    pub under: Under,
    pub layers: Vec<Layer>,
    pub follow: bool,
    /// when set: only this placement (indices into `sites`) is run — used by shrunk replays
    pub only: Option<Vec<usize>>,
}

fn with_faults(tree: &TreeSpec, sites: &[&Site]) -> (TreeSpec, bool) {
    let mut t = tree.clone();
    let mut root_unreadable = false;
    for s in sites {
        match s {
            Site::Unreadable(p) => {
                if p.is_empty() {
                    root_unreadable = true;
                }
                for n in t.nodes.iter_mut() {
                    if n.path == *p {
                        n.unreadable = true;
                    }
                }
            },
            Site::Dangling(d) => {
                // the link's name — hence its place among its siblings in any directory order —
                // varies with the directory (a fault is not always the last child)
                let name = ["zd", "0d", ".d", "md", "Ad"][d.bytes().map(|b| b as usize).sum::<usize>() % 5];
                let path = if d.is_empty() { name.to_string() } else { format!("{}/{}", d, name) };
                t.nodes.push(Node { path, kind: Kind::Dangling, unreadable: false });
            },
            Site::Reentrant(d, up) => {
                let name = ["zr", "0r", ".r", "mr"][(d.bytes().map(|b| b as usize).sum::<usize>() + d.len()) % 4];
                let path = if d.is_empty() { name.to_string() } else { format!("{}/{}", d, name) };
                let mut target = d.clone();
                for _ in 0..*up {
                    target = target.rsplit_once('/').map(|x| x.0.to_string()).unwrap_or_default();
                }
                t.nodes.push(Node { path, kind: Kind::Link(target), unreadable: false });
            },
            Site::LinkTo(d, p) => {
                let name = ["zl", "0l", ".l", "ml"][(d.bytes().map(|b| b as usize).sum::<usize>() + d.len()) % 4];
                let path = if d.is_empty() { name.to_string() } else { format!("{}/{}", d, name) };
                t.nodes.push(Node { path, kind: Kind::Link(p.clone()), unreadable: false });
            },
            Site::LinkUnreadable(d, p) => {
                for n in t.nodes.iter_mut() {
                    if n.path == *p {
                        n.unreadable = true;
                    }
                }
                let name = ["zu", "0u", ".u", "mu"][(d.bytes().map(|b| b as usize).sum::<usize>() + d.len()) % 4];
                let path = if d.is_empty() { name.to_string() } else { format!("{}/{}", d, name) };
                t.nodes.push(Node { path, kind: Kind::Link(p.clone()), unreadable: false });
            },
        }
    }
    // parents before children still holds for appended links (their parents exist)
    (t, root_unreadable)
}

fn subsets(n: usize, extra: Option<Vec<usize>>) -> Vec<Vec<usize>> {
    let mut out = vec![vec![]];
    for i in 0..n {
        out.push(vec![i]);
    }
    for i in 0..n {
        for j in i + 1..n {
            out.push(vec![i, j]);
        }
    }
    if let Some(e) = extra {
        if e.len() >= 3 {
            out.push(e);
        }
    }
    out
}

/// items of a walk as (Ok|Err, path) in order
fn seq(items: &[Item]) -> Vec<(bool, String)> {
    items
        .iter()
        .map(|i| match &i.seen {
            Seen::Ok { path, .. } => (true, path.clone()),
            Seen::Err { path, .. } => (false, path.clone().unwrap_or_default()),
        })
        .collect()
}

impl Property for C20 {
    type Case = Case;
    fn id(&self) -> &'static str {
        "C20"
    }
    fn level(&self) -> &'static str {
        "fault_enumeration"
    }
    fn rule(&self) -> String {
        "generated trees x fault sites (<= 10 per tree: unreadable directories incl. the walk base, \
         dangling links, links re-entering the parent / grand-parent / own directory, links to a \
         directory that is made unreadable, and plain links to a readable directory elsewhere in the \
         tree) enumerated \
         exhaustively for 0, 1 and 2 simultaneous faults plus one larger subset, x underlying walk \
         (Path::walk, Glob::walk) x both link behaviours x stacks (none, keep-everything probes, \
         discarding not / filter_entry layers); one evaluation = one walk of one placement; checked: \
         Ok multiset and error multiset (by path) equal the fault-aware reference traversal, the \
         keep-everything stack reproduces the bare walk's item sequence exactly, the discarding \
         stack's sequence is the bare sequence minus discarded entries and minus everything beneath \
         discarded trees, io::Error conversion keeps the kind; non-trivial = a placement with >= 1 \
         reached fault and an entry after it; distinct by (tree, placement, walk, stack)"
            .into()
    }
    fn assumptions(&self) -> Vec<String> {
        vec![
            "runs as an unprivileged user (uid nobody when started as root) so that chmod 000 is a real fault".into(),
            "a fault is reached unless it lies beneath an unreadable, pruned or discarded directory; a discarded unreadable directory drops its own pending error together with the directory (walkdir reads a directory when it is entered)".into(),
            "read_dir order is not changed between the runs that are compared".into(),
        ]
    }
    fn budget(&self, tier: Tier) -> (u32, u32) {
        match tier {
            Tier::Quick => (200, 8),
            Tier::Thorough => (4000, 16),
        }
    }
    fn tape_len(&self) -> usize {
        384
    }
    fn required_counters(&self) -> Vec<&'static str> {
        vec!["placements", "prefixed_glob_walks", "walks", "fault_unreadable_reached", "fault_dangling_reached", "fault_reentrant_reached", "fault_at_base", "fault_last_child", "two_faults", "fault_beneath_discarded_tree", "fault_with_stack", "io_error_conversions", "error_depths_compared", "fault_link_to_unreadable_reached", "followed_plain_link_to_directory"]
    }
    fn decode(&self, t: &mut Tape) -> Case {
        let tree = gen_tree(t, &TreeCfg { max_entries: 14, ..TreeCfg::default() });
        let dirs: Vec<String> = std::iter::once(String::new()).chain(tree.nodes.iter().filter(|n| n.kind == Kind::Dir).map(|n| n.path.clone())).collect();
        let mut sites: Vec<Site> = Vec::new();
        let n = 2 + t.below(8);
        for _ in 0..n {
            let d = t.pick(&dirs);
            let s = match t.weighted(&[36, 20, 24, 10, 10]) {
                0 => Site::Unreadable(d),
                1 => Site::Dangling(d),
                2 => Site::Reentrant(d, t.below(3)),
                3 => {
                    let cands: Vec<String> = dirs.iter().filter(|p| !p.is_empty() && **p != d && !d.starts_with(&format!("{}/", p))).cloned().collect();
                    if cands.is_empty() {
                        Site::Unreadable(d)
                    }
                    else {
                        Site::LinkUnreadable(d, t.pick(&cands))
                    }
                },
                _ => {
                    let cands: Vec<String> = dirs.iter().filter(|p| !p.is_empty() && **p != d && !d.starts_with(&format!("{}/", p))).cloned().collect();
                    if cands.is_empty() {
                        Site::Dangling(d)
                    }
                    else {
                        Site::LinkTo(d, t.pick(&cands))
                    }
                },
            };
            if !sites.contains(&s) && sites.len() < 10 {
                // at most one link of each kind per directory (fixed names zd / zr)
                let clash = sites.iter().any(|x| match (x, &s) {
                    (Site::Dangling(a), Site::Dangling(b)) => a == b,
                    (Site::Reentrant(a, _), Site::Reentrant(b, _)) => a == b,
                    (Site::LinkUnreadable(a, _), Site::LinkUnreadable(b, _)) => a == b,
                    (Site::LinkTo(a, _), Site::LinkTo(b, _)) => a == b,
                    _ => false,
                });
                if !clash {
                    sites.push(s);
                }
            }
        }
        let under = match t.weighted(&[35, 35, 30]) {
            0 => Under::Path,
            1 => {
                // a glob with an invariant prefix of 1-3 existing directories, then `**`
                let ds: Vec<String> = tree.nodes.iter().filter(|n| n.kind == Kind::Dir).map(|n| n.path.clone()).collect();
                if ds.is_empty() {
                    Under::Path
                }
                else {
                    let tail = match t.below(3) {
                        0 => vec![crate::ast::Tok::Tree { lead: false, trail: false }],
                        1 => vec![crate::ast::Tok::Tree { lead: false, trail: true }, crate::ast::Tok::Zom { lazy: false }],
                        _ => vec![crate::ast::Tok::Zom { lazy: false }],
                    };
                    Under::Glob { shape: crate::props::c02::Shape::Prefixed(t.pick(&ds), 0), glob: tail }
                }
            },
            _ => gen_under(t, &tree, &Base::Abs),
        };
        // layers are generated over the tree *with* the plain links standing as directories, so
        // that a negation or a table can discard a followed link as a tree
        let mut ltree = tree.clone();
        for s in &sites {
            if let Site::LinkTo(d, _) = s {
                let name = ["zl", "0l", ".l", "ml"][(d.bytes().map(|b| b as usize).sum::<usize>() + d.len()) % 4];
                let path = if d.is_empty() { name.to_string() } else { format!("{}/{}", d, name) };
                ltree.nodes.push(Node { path, kind: Kind::Dir, unreadable: false });
            }
        }
        let layers = if t.chance(100) { vec![] } else { gen_layers(t, &ltree, 1).into_iter().take(2).collect() };
        Case { tree, sites, under, layers, follow: t.chance(140), only: None }
    }
    fn shrink(&self, c: &Case) -> Vec<Case> {
        let mut out = Vec::new();
        if c.only.is_none() {
            // a failing placement is recorded by `check` in the message; shrink by fixing subsets
            for sub in subsets(c.sites.len(), None) {
                out.push(Case { only: Some(sub), ..c.clone() });
            }
            return out;
        }
        if !c.layers.is_empty() {
            out.push(Case { layers: vec![], ..c.clone() });
        }
        if !matches!(c.under, Under::Path) {
            out.push(Case { under: Under::Path, ..c.clone() });
        }
        for i in (0..c.tree.nodes.len()).rev() {
            let p = &c.tree.nodes[i].path;
            let refd = c.sites.iter().any(|s| match s {
                Site::Unreadable(d) | Site::Dangling(d) | Site::Reentrant(d, _) => d == p || d.starts_with(&format!("{}/", p)),
                Site::LinkUnreadable(d, q) | Site::LinkTo(d, q) => d == p || d.starts_with(&format!("{}/", p)) || q == p || q.starts_with(&format!("{}/", p)),
            });
            if refd {
                continue;
            }
            let nodes: Vec<Node> = c.tree.nodes.iter().filter(|n| n.path != *p && !n.path.starts_with(&format!("{}/", p))).cloned().collect();
            out.push(Case { tree: TreeSpec { nodes }, ..c.clone() });
        }
        out
    }
    fn check(&self, case: &Case, st: &mut Stats) -> CheckResult {
        if unsafe { libc::geteuid() } == 0 {
            // chmod 000 is no obstacle for root: refuse to judge (the dispatcher drops privileges)
            st.count("skipped_running_as_root");
            return Ok(());
        }
        let layers_rt = match guard(|| prepare_layers(&case.layers, false)) {
            Ok(Ok(l)) => l,
            _ => {
                st.count("layer_not_built");
                return Ok(());
            },
        };
        let glob_rt = match guard(|| prepare_glob(&case.under)) {
            Ok(Some(g)) => g,
            _ => {
                st.count("underlying_not_built");
                return Ok(());
            },
        };
        let prefix: String = glob_rt.as_ref().map(|g| g.prefix.clone()).unwrap_or_default();
        if prefix.split('/').any(|c| c == "." || c == "..") {
            st.count("skipped_dot_prefix");
            return Ok(());
        }
        if !prefix.is_empty() {
            st.count("prefixed_glob_walks");
        }
        let placements = match &case.only {
            Some(p) => vec![p.clone()],
            None => subsets(case.sites.len(), if case.sites.len() >= 3 { Some((0..case.sites.len().min(4)).collect()) } else { None }),
        };
        let beh = WalkBehavior { link: if case.follow { LinkBehavior::ReadTarget } else { LinkBehavior::ReadFile }, ..WalkBehavior::default() };
        for placement in placements {
            let sites: Vec<&Site> = placement.iter().filter_map(|i| case.sites.get(*i)).collect();
            let (tree, root_unreadable) = with_faults(&case.tree, &sites);
            let mut s = match Scratch::create(&tree) {
                Ok(s) => s,
                Err(_) => {
                    st.count("scratch_failed");
                    continue;
                },
            };
            if root_unreadable {
                let _ = s.make_unreadable("");
                st.count("fault_at_base");
            }
            let base = s.root.clone();
            // (also a plain link whose target another site makes unreadable)
            let followed_link_to_unreadable = case.follow
                && tree.nodes.iter().any(|n| matches!(&n.kind, Kind::Link(t) if tree.nodes.iter().any(|m| m.path == *t && m.unreadable)));
            if followed_link_to_unreadable && glob_rt.is_some() {
                // judged on path walks only (the pruning of a glob is observed from a probed run,
                // which would have to be taught the same deviation)
                st.count("followed_link_to_unreadable_under_glob_not_judged");
                continue;
            }
            st.count("placements");
            if case.follow && sites.iter().any(|s| matches!(s, Site::LinkTo(..))) {
                st.count("followed_plain_link_to_directory");
            }
            if sites.len() >= 2 {
                st.count("two_faults");
            }
            let describe = |what: &str| {
                format!(
                    "{} — tree {:?}, faults {:?}, {}, walk {}, stack {:?}",
                    what,
                    case.tree.nodes.iter().map(|n| format!("{}{}", n.path, if n.kind == Kind::Dir { "/" } else { "" })).collect::<Vec<_>>(),
                    sites,
                    if case.follow { "ReadTarget" } else { "ReadFile" },
                    match &glob_rt {
                        None => "Path::walk".to_string(),
                        Some(g) => format!("Glob(`{}`)", g.glob),
                    },
                    case.layers
                )
            };
            // ---- reference (from the walk start = base joined with the glob's invariant prefix;
            // relative paths below are relative to the base)
            let start = if prefix.is_empty() { base.clone() } else { base.join(&prefix) };
            match std::fs::symlink_metadata(&start) {
                Ok(md) if md.is_dir() => {},
                _ => {
                    st.count("start_not_a_directory");
                    continue;
                },
            }
            let join = |rel: &str| -> String {
                if prefix.is_empty() {
                    rel.to_string()
                }
                else if rel.is_empty() {
                    prefix.clone()
                }
                else {
                    format!("{}/{}", prefix, rel)
                }
            };
            let reference_from_start = ref_walk(&start, case.follow);
            // documented: `WalkError::depth` is the depth from the root directory of the traversal
            // (the walk start), which for a fault is the number of components of its path below it
            let err_depth: BTreeMap<String, usize> = reference_from_start
                .iter()
                .filter_map(|i| match i {
                    RefItem::Error { rel, .. } => {
                        let joined = join(rel);
                        let p = if joined.is_empty() { norm(&base) } else { norm(&base.join(&joined)) };
                        Some((p, rel.split('/').filter(|c| !c.is_empty()).count()))
                    },
                    _ => None,
                })
                .collect();
            let reference: Vec<RefItem> = reference_from_start
                .into_iter()
                .map(|i| match i {
                    RefItem::Entry { rel, is_dir, is_link, depth } => RefItem::Entry { rel: join(&rel), is_dir, is_link, depth },
                    RefItem::Error { rel, what } => RefItem::Error { rel: join(&rel), what },
                })
                .collect();
            let entries: Vec<(String, bool)> = reference
                .iter()
                .filter_map(|i| match i {
                    RefItem::Entry { rel, is_dir, .. } => Some((rel.clone(), *is_dir)),
                    _ => None,
                })
                .collect();
            // the glob's own pruning is not predicted from its component programs: it is observed
            // from a probed run of this very placement and validated (nothing skipped that could
            // match), so a different sound pruning strategy cannot raise an alarm
            let cap = 20 * (reference.len() + 10);
            let observed = match &glob_rt {
                None => None,
                Some(g) => match guard(|| run_stack(&base, &case.under, &[], beh, cap)) {
                    Ok(Ok(Some(o))) => {
                        if o.capped {
                            return Err(describe(&format!("the probed walk did not terminate within {} items", cap)));
                        }
                        let log = o.logs.last().cloned().unwrap_or_default();
                        let fed: std::collections::BTreeSet<String> = log.iter().cloned().collect();
                        if fed.len() != log.len() {
                            return Err(describe(&format!("the walk feeds an entry downstream more than once: {:?}", log)));
                        }
                        let yielded = o.items.iter().filter_map(|i| i.rel.clone()).collect();
                        match observe(&entries, g, fed, yielded, false) {
                            Ok(ob) => Some(ob),
                            Err(m) => return Err(describe(&m)),
                        }
                    },
                    Ok(Ok(None)) | Ok(Err(_)) => continue,
                    Err(m) => return Err(describe(&format!("the probed walk panicked: {}", m))),
                },
            };
            let via = glob_rt.as_ref().and_then(|g| crate::viable::Viability::new(&g.glob.verif_program_pattern()));
            let mut exp_ok: BTreeMap<String, usize> = BTreeMap::new();
            let mut optional_root: Option<String> = None;
            // required: something at or beneath the fault can still match the glob; allowed: every
            // fault the fault-aware reference traversal meets
            let mut req_err: BTreeMap<String, usize> = BTreeMap::new();
            let mut allowed_err: BTreeMap<String, usize> = BTreeMap::new();
            let p_of = |rel: &str| if rel.is_empty() { norm(&base) } else { norm(&base.join(rel)) };
            for it in &reference {
                match it {
                    RefItem::Entry { rel, .. } => {
                        let keep = match &glob_rt {
                            None => true,
                            Some(g) => g.glob.is_match(rel.as_str()),
                        };
                        if keep && rel.is_empty() && glob_rt.is_some() {
                            // the base itself may but need not be yielded (C02)
                            optional_root = Some(p_of(rel));
                            continue;
                        }
                        if keep {
                            *exp_ok.entry(p_of(rel)).or_insert(0) += 1;
                        }
                    },
                    RefItem::Error { rel, what } => {
                        let own = *what == "unreadable directory";
                        *allowed_err.entry(p_of(rel)).or_insert(0) += 1;
                        let must = match (&glob_rt, &via) {
                            (None, _) => true,
                            (Some(_), Some(v)) => v.beneath_viable(rel) == Some(true) || (!own && v.matches(rel) == Some(true)),
                            (Some(_), None) => false,
                        };
                        if !must {
                            st.count("fault_optional");
                            continue;
                        }
                        if own && case.follow && std::fs::symlink_metadata(base.join(rel)).map(|m| m.file_type().is_symlink()).unwrap_or(false) {
                            st.count("fault_link_to_unreadable_reached");
                        }
                        match *what {
                            "unreadable directory" => st.count("fault_unreadable_reached"),
                            "dangling link" => st.count("fault_dangling_reached"),
                            "link re-enters an ancestor" => st.count("fault_reentrant_reached"),
                            _ => {},
                        }
                        *req_err.entry(p_of(rel)).or_insert(0) += 1;
                    },
                }
            }
            let beneath = |set: &std::collections::BTreeSet<String>, rel: &str, or_equal: bool| -> bool {
                set.iter().any(|d| {
                    (or_equal && d == rel) || if d.is_empty() { !rel.is_empty() } else { rel.starts_with(&format!("{}/", d)) }
                })
            };
            // ---- bare walk
            let bare = guard(|| match &glob_rt {
                None => collect(base.walk_with_behavior(beh), cap),
                Some(g) => collect(g.glob.walk_with_behavior(base.clone(), beh), cap),
            });
            let (bare, capped) = match bare {
                Ok(x) => x,
                Err(m) => return Err(describe(&format!("the walk panicked: {}", m))),
            };
            st.count("walks");
            st.eval(1);
            if capped {
                return Err(describe(&format!("the walk did not terminate within {} items", cap)));
            }
            let bare_seq = seq(&bare);
            for it in &bare {
                if let Seen::Err { path: Some(p), depth } = &it.seen {
                    if let Some(d) = err_depth.get(p) {
                        st.count("error_depths_compared");
                        if d != depth {
                            return Err(describe(&format!("the error item for {:?} reports depth {} — the fault lies {} components below the root directory of the traversal", p, depth, d)));
                        }
                    }
                }
            }
            let mut act_ok: BTreeMap<String, usize> = BTreeMap::new();
            let mut act_err: BTreeMap<String, usize> = BTreeMap::new();
            for (ok, p) in &bare_seq {
                if *ok {
                    *act_ok.entry(p.clone()).or_insert(0) += 1;
                }
                else {
                    *act_err.entry(p.clone()).or_insert(0) += 1;
                }
            }
            if let Some(r) = &optional_root {
                if act_ok.get(r) == Some(&1) {
                    act_ok.remove(r);
                }
            }
            let judge = |exp_ok: &BTreeMap<String, usize>, req_err: &BTreeMap<String, usize>, allowed_err: &BTreeMap<String, usize>| -> Result<(), String> {
                for (p, n) in req_err {
                    if act_err.get(p) != Some(n) {
                        return Err(format!("error items by path {:?}, but the fault at {:?} must be reported exactly once, naming its path (required {:?}, possible {:?})", act_err, p, req_err, allowed_err));
                    }
                }
                for (p, n) in &act_err {
                    if allowed_err.get(p).map_or(true, |m| n > m) {
                        return Err(format!("error items by path {:?}: {:?} is not a fault of this tree, or is reported more than once (possible {:?})", act_err, p, allowed_err));
                    }
                }
                if act_ok != *exp_ok {
                    let missing: Vec<&String> = exp_ok.keys().filter(|k| act_ok.get(*k) != exp_ok.get(*k)).collect();
                    let extra: Vec<&String> = act_ok.keys().filter(|k| !exp_ok.contains_key(*k)).collect();
                    return Err(format!("entries differ from a fault-free walk of the readable part: missing {:?}, unexpected {:?}", missing, extra));
                }
                Ok(())
            };
            if let Err(m) = judge(&exp_ok, &req_err, &allowed_err) {
                // open finding F-LINK-UNREADABLE, predicted exactly: a followed link whose target
                // directory cannot be read gives no entry and one error item that names no path
                let mut q_ok = exp_ok.clone();
                let mut q_req = req_err.clone();
                let mut q_all = allowed_err.clone();
                let mut links = Vec::new();
                if followed_link_to_unreadable && crate::findings::is_open("F-LINK-UNREADABLE", "C20") {
                    for it in &reference {
                        if let RefItem::Error { rel, what } = it {
                            if *what == "unreadable directory" && std::fs::symlink_metadata(base.join(rel)).map(|m| m.file_type().is_symlink()).unwrap_or(false) {
                                let p = p_of(rel);
                                q_ok.remove(&p);
                                q_all.remove(&p);
                                if q_req.remove(&p).is_some() {
                                    *q_req.entry(String::new()).or_insert(0) += 1;
                                }
                                *q_all.entry(String::new()).or_insert(0) += 1;
                                links.push(rel.clone());
                            }
                        }
                    }
                }
                if !links.is_empty() && judge(&q_ok, &q_req, &q_all).is_ok() {
                    st.known("F-LINK-UNREADABLE", || describe(&format!("the followed link(s) {:?} to an unreadable directory: no entry, and an error item whose path() is None", links)));
                    continue;
                }
                return Err(describe(&m));
            }
            // statistics: a fault that is the last child / followed by entries
            let first_err = bare_seq.iter().position(|x| !x.0);
            let nontrivial = first_err.map_or(false, |i| bare_seq[i + 1..].iter().any(|x| x.0));
            if let Some(i) = first_err {
                if i + 1 == bare_seq.len() {
                    st.count("fault_last_child");
                }
            }
            // ---- io::Error conversion
            let conv = guard(|| -> Result<usize, String> {
                let mut n = 0;
                let check = |e: wax::walk::WalkError| -> Result<(), String> {
                    let shown = e.to_string();
                    let path = e.path().map(|p| p.to_path_buf());
                    let io: std::io::Error = e.into();
                    let expected_kind = match &path {
                        Some(p) => match std::fs::symlink_metadata(p) {
                            Ok(m) if m.file_type().is_symlink() => {
                                if let Err(e) = std::fs::metadata(p) {
                                    // missing target: NotFound; a target beneath a directory
                                    // that cannot be searched: PermissionDenied
                                    Some(e.kind())
                                }
                                else {
                                    Some(std::io::ErrorKind::Other)
                                }
                            },
                            Ok(_) => Some(std::io::ErrorKind::PermissionDenied),
                            Err(_) => None,
                        },
                        None => None,
                    };
                    if let Some(k) = expected_kind {
                        if io.kind() != k {
                            return Err(format!("error `{}` converts to io::Error of kind {:?}, expected {:?}", shown, io.kind(), k));
                        }
                    }
                    Ok(())
                };
                match &glob_rt {
                    None => {
                        for item in base.walk_with_behavior(beh).take(cap) {
                            if let Err(e) = item {
                                check(e)?;
                                n += 1;
                            }
                        }
                    },
                    Some(g) => {
                        for item in g.glob.walk_with_behavior(base.clone(), beh).take(cap) {
                            if let Err(e) = item {
                                check(e)?;
                                n += 1;
                            }
                        }
                    },
                }
                Ok(n)
            });
            match conv {
                Ok(Ok(n)) => st.add("io_error_conversions", n as u64),
                Ok(Err(m)) => return Err(describe(&m)),
                Err(m) => return Err(describe(&format!("converting a walk error into io::Error panicked: {}", m))),
            }
            // ---- keep-everything stack: the item sequence is reproduced exactly
            let probes = vec![Layer::Table(vec![]), Layer::Table(vec![])];
            let kept = guard(|| run_stack(&base, &case.under, &probes, beh, cap));
            match kept {
                Ok(Ok(Some(o))) => {
                    st.count("walks");
                    st.eval(1);
                    let s2 = seq(&o.items);
                    if s2 != bare_seq {
                        return Err(describe(&format!(
                            "two pass-through filters change the item sequence: bare {:?}, stacked {:?}",
                            bare_seq, s2
                        )));
                    }
                },
                Ok(Ok(None)) => {},
                Ok(Err(e)) => return Err(describe(&format!("stack refused: {}", e))),
                Err(m) => return Err(describe(&format!("the stacked walk panicked: {}", m))),
            }
            // ---- discarding stack
            if !case.layers.is_empty() {
                let m = model_with(&entries, glob_rt.as_ref(), observed.as_ref(), &layers_rt);
                let rel_of = |p: &str| -> String {
                    let b = norm(&base);
                    if p == b {
                        String::new()
                    }
                    else {
                        p.strip_prefix(&format!("{}/", b)).unwrap_or(p).to_string()
                    }
                };
                let mut expected_seq: Vec<(bool, String)> = Vec::new();
                for (ok, p) in &bare_seq {
                    let rel = rel_of(p);
                    if *ok {
                        if m.yielded.contains(&rel) {
                            expected_seq.push((true, p.clone()));
                        }
                    }
                    else {
                        // an error survives unless it lies beneath a discarded tree — or is the
                        // pending read error of a discarded directory itself
                        let own_dir = std::fs::symlink_metadata(base.join(&rel)).map(|md| md.is_dir()).unwrap_or(false);
                        if beneath(&m.discarded, &rel, own_dir) {
                            st.count("fault_beneath_discarded_tree");
                            continue;
                        }
                        expected_seq.push((false, p.clone()));
                    }
                }
                let stacked = guard(|| run_stack(&base, &case.under, &case.layers, beh, cap));
                match stacked {
                    Ok(Ok(Some(o))) => {
                        st.count("walks");
                        st.count("fault_with_stack");
                        st.eval(1);
                        let s2 = seq(&o.items);
                        if s2 != expected_seq {
                            return Err(describe(&format!(
                                "with the discarding stack the items are {:?}; expected the bare sequence minus discarded entries and minus everything beneath discarded trees {:?}: {:?}",
                                s2, m.discarded, expected_seq
                            )));
                        }
                    },
                    Ok(Ok(None)) => {},
                    Ok(Err(e)) => return Err(describe(&format!("stack refused: {}", e))),
                    Err(msg) => return Err(describe(&format!("the stacked walk panicked: {}", msg))),
                }
            }
            if nontrivial {
                let key = format!("{:?}|{:?}|{:?}|{:?}|{}", case.tree, sites, case.under, case.layers, case.follow);
                st.nontrivial(&key, || {
                    json!({"tree": case.tree.nodes.iter().map(|n| n.path.clone()).collect::<Vec<_>>(), "faults": format!("{:?}", sites),
                           "link_behaviour": if case.follow { "ReadTarget" } else { "ReadFile" },
                           "items": bare_seq.iter().map(|(ok, p)| format!("{} {}", if *ok { "Ok" } else { "Err" }, p)).collect::<Vec<_>>()})
                });
            }
        }
        Ok(())
    }
}
