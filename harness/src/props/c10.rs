//! C10 — Reported depth bounds contain the depth of every match.

use crate::ast::*;
use crate::engine::*;
use crate::gen::*;
use crate::props::common::*;
use serde_json::json;
use wax::query::{Boundedness, DepthVariance, When};

pub struct C10;

fn bound(b: Boundedness<std::num::NonZeroUsize>) -> Option<usize> {
    match b {
        Boundedness::Bounded(n) => Some(n.get()),
        Boundedness::Unbounded => None,
    }
}

impl Property for C10 {
    type Case = PatCase;
    fn id(&self) -> &'static str {
        "C10"
    }
    fn rule(&self) -> String {
        "glob ASTs rich in separators, tree wildcards, nested repetitions with separators and \
         alternations of different depth (and any() of two) x pools with min-/max-count witnesses, \
         canonicalised; judged: canonical matched paths that are relative for a never-rooted and \
         rooted for an always-rooted pattern; one evaluation = one judged (pattern, path); \
         non-trivial = the expression has a branch token containing a separator or a tree \
         wildcard; distinct by (pattern, component count)"
            .into()
    }
    fn assumptions(&self) -> Vec<String> {
        vec![
            "depth = number of non-empty components (the root is not a component: wax reports 1 for `/a`)".into(),
            "the empty path and the root `/` are read as zero components or as one empty component (wax's depth model counts the open component of `*`, `/*` and of the empty glob)".into(),
            "expressions with a tree wildcard that is not delimited in the expression (`<**/a:2>`, `a{**/b}`) are outside the domain: the documentation does not say what they match".into(),
            "patterns whose depth() panics are C05's business and skipped here".into(),
        ]
    }
    fn budget(&self, tier: Tier) -> (u32, u32) {
        match tier {
            Tier::Quick => (5000, 8),
            Tier::Thorough => (200000, 16),
        }
    }
    fn required_counters(&self) -> Vec<&'static str> {
        vec!["depth_invariant", "depth_bounded", "depth_unbounded", "judged_any", "judged_rooted", "branch_with_separator"]
    }
    fn decode(&self, t: &mut Tape) -> PatCase {
        let mut cfg = GenCfg::default();
        cfg.weights = [26, 22, 4, 8, 12, 4, 14, 14];
        cfg.noise_flags = 4;
        let n = 1 + t.weighted(&[80, 20]);
        let mut exprs: Vec<Expr> = (0..n).map(|_| gen_expr(t, &cfg)).collect();
        add_empty_member(t, &mut exprs);
        let mut paths = pat_pool(t, &exprs, 2);
        let canon: Vec<String> = paths.iter().map(|p| canonicalize(p)).collect();
        paths.extend(canon);
        paths.sort();
        paths.dedup();
        PatCase { exprs, paths }
    }
    fn shrink(&self, c: &PatCase) -> Vec<PatCase> {
        shrink_patcase(c)
    }
    fn check(&self, case: &PatCase, st: &mut Stats) -> CheckResult {
        let (text, pat) = match build_pat(&case.exprs) {
            Ok(Some(x)) => x,
            Ok(None) => {
                st.count("not_built");
                return Ok(());
            },
            Err(_) => {
                st.panicked += 1;
                return Ok(());
            },
        };
        let (depth, root) = match guard(|| (pat.depth(), pat.has_root())) {
            Ok(x) => x,
            Err(_) => {
                st.panicked += 1;
                st.count("depth_panicked");
                return Ok(());
            },
        };
        match depth {
            DepthVariance::Invariant(_) => st.count("depth_invariant"),
            DepthVariance::Variant(Boundedness::Bounded(_)) => st.count("depth_bounded"),
            DepthVariance::Variant(Boundedness::Unbounded) => st.count("depth_unbounded"),
        }
        if case.exprs.iter().any(has_undelimited_tree) {
            st.count("skipped_undelimited_tree");
            return Ok(());
        }
        let interesting = case.exprs.iter().any(|e| {
            any_tok(e, &|t, _| match t {
                Tok::Alt(bs) => bs.iter().any(|b| any_tok(b, &|t, _| t.is_boundary())),
                Tok::Rep { body, .. } => any_tok(body, &|t, _| t.is_boundary()),
                _ => false,
            })
        });
        if interesting {
            st.count("branch_with_separator");
        }
        for p in &case.paths {
            if !is_canonical(p) {
                continue;
            }
            let rooted = p.starts_with('/');
            match root {
                When::Always if !rooted => continue,
                When::Never if rooted => continue,
                When::Sometimes => {
                    st.count("skipped_sometimes_rooted");
                    continue;
                },
                _ => {},
            }
            if !pat.is_match(p) {
                continue;
            }
            st.eval(1);
            if pat.is_any() {
                st.count("judged_any");
            }
            if rooted {
                st.count("judged_rooted");
            }
            let n = component_count(p);
            let ok = |n: usize| match depth {
                DepthVariance::Invariant(k) => n == k,
                DepthVariance::Variant(Boundedness::Unbounded) => true,
                DepthVariance::Variant(Boundedness::Bounded(r)) => {
                    bound(r.lower()).map_or(true, |l| l <= n) && bound(r.upper()).map_or(true, |u| n <= u)
                },
            };
            if !(ok(n) || ((p.is_empty() || p == "/") && ok(1))) {
                // F-DEPTH-BRANCH: a branch token that contains a boundary is folded in isolation
                // (its open first / last component is counted) and then joined with its
                // neighbours, which count the same component again: the *lower* bound is too
                // high by at most one per such branch token.
                if crate::findings::is_open("F-DEPTH-BRANCH", "C10") {
                    // narrow signature (every manifestation seen on the pinned tree has it): the
                    // reported range has no upper bound — the branch holds a tree wildcard —, and
                    // the lower bound is too high by at most one per branch token that contains a
                    // tree wildcard and has a neighbour
                    let k: usize = case.exprs.iter().map(boundary_branches).max().unwrap_or(0);
                    let lower = match depth {
                        DepthVariance::Variant(Boundedness::Bounded(r)) if bound(r.upper()).is_none() => bound(r.lower()),
                        _ => None,
                    };
                    if let Some(l) = lower {
                        let n_hi = if p.is_empty() || p == "/" { n + 1 } else { n };
                        if k > 0 && l > n_hi && l - n_hi <= k {
                            st.known("F-DEPTH-BRANCH", || format!("{} reports {:?} but matches {:?} ({} components)", text, depth, p, n));
                            continue;
                        }
                    }
                }
                return Err(format!(
                    "{} reports depth {:?} but matches the canonical path {:?} with {} components",
                    text, depth, p, n
                ));
            }
            if interesting {
                st.nontrivial(&(text.as_str(), n), || json!({"pattern": text, "path": p, "components": n, "depth": format!("{:?}", depth)}));
            }
        }
        Ok(())
    }
}

/// number of branch tokens that contain a tree wildcard and have a neighbour (a repetition that may
/// iterate more than once is its own neighbour)
pub fn boundary_branches(e: &Expr) -> usize {
    fn has_tree(e: &Expr) -> bool {
        any_tok(e, &|t, _| matches!(t, Tok::Tree { .. }))
    }
    fn go(e: &Expr) -> usize {
        let mut n = 0;
        let toks: Vec<&Tok> = e.iter().filter(|t| !t.is_flag()).collect();
        for t in &toks {
            match t {
                Tok::Alt(bs) => {
                    if bs.iter().any(has_tree) && toks.len() > 1 {
                        n += 1;
                    }
                    n += bs.iter().map(go).max().unwrap_or(0);
                },
                Tok::Rep { body, hi, .. } => {
                    if has_tree(body) && (toks.len() > 1 || *hi != Some(1)) {
                        n += 1;
                    }
                    n += go(body);
                },
                _ => {},
            }
        }
        n
    }
    go(e)
}
