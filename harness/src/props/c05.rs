//! C05 — Building and querying a glob is total.
//!
//! Every case is executed in a crash-isolating worker process (main thread, default 8 MiB stack —
//! what a user gets), so that aborts (stack overflow, OOM) are observed, not just panics.

use crate::ast::*;
use crate::engine::*;
use crate::gen::*;
use crate::isolate::{Death, Worker};
use serde::{Deserialize, Serialize};
use serde_json::json;
use std::cell::RefCell;

pub struct C05;

#[derive(Serialize, Deserialize, Clone, Debug)]
pub struct Case {
    pub text: String,
    /// reference estimate of the unrolled program size (tokens), when the generator knows it
    pub est: Option<u64>,
    pub paths: Vec<String>,
}

#[derive(Serialize, Deserialize, Clone, Debug)]
pub struct Outcome {
    /// ok | parse | rule | compile | panic
    pub kind: String,
    pub detail: String,
    pub ops: u32,
}

// ------------------------------------------------------------------------------------------------
// worker side

pub fn exercise(text: &str, paths: &[String]) -> Outcome {
    use std::path::Path;
    use wax::query::LocatedError;
    use wax::walk::{FileIterator, PathExt};
    use wax::{CandidatePath, Glob, Program};
    let mut ops = 0u32;
    let r = guard(|| {
        let fixed: Vec<String> = vec![
            String::new(),
            "a".repeat(300),
            "/a/b".into(),
            "é/字".into(),
            "a\nb".into(),
            "a/".repeat(2048),
        ];
        let mut kind = "ok";
        let mut detail = String::new();
        match Glob::new(text) {
            Err(e) => {
                let msg = e.to_string();
                for l in e.locations() {
                    let l: &dyn LocatedError = l;
                    let _ = l.span();
                    let _ = l.to_string();
                    ops += 1;
                }
                let _ = format!("{:?}", e);
                let _ = e.clone();
                // the kind comes from the error value (hook), not from its message
                kind = e.verif_kind();
                detail = msg;
            },
            Ok(g) => {
                let probe = |g: &Glob<'_>, ops: &mut u32| {
                    let _ = g.depth();
                    let _ = g.text();
                    let _ = g.has_root();
                    let _ = g.is_exhaustive();
                    let _ = g.captures().count();
                    let _ = g.has_semantic_literals();
                    let _ = g.is_empty();
                    let _ = g.to_string();
                    *ops += 8;
                    for p in fixed.iter().chain(paths.iter()) {
                        let _ = g.is_match(p.as_str());
                        let c = CandidatePath::from(p.as_str());
                        if let Some(m) = g.matched(&c) {
                            let _ = m.complete();
                            let _ = m.get(1);
                            let _ = m.to_owned().get(2);
                        }
                        *ops += 2;
                    }
                };
                probe(&g, &mut ops);
                let g2 = g.clone().into_owned();
                probe(&g2, &mut ops);
                let (pre, post) = g.clone().partition();
                let _ = pre;
                if let Some(post) = post {
                    probe(&post, &mut ops);
                    let _ = post.partition();
                }
                let _ = g.clone().partition_or_empty();
                let _ = g.clone().partition_or_tree();
                // walk construction compiles the component programs (no iteration, no I/O)
                let _ = g.walk(".");
                let _ = g.walk_with_behavior("/nonexistent", wax::walk::LinkBehavior::ReadTarget);
                // every depth behaviour against the length of the glob's invariant prefix (a
                // maximum below it, a minimum above it, the extremes); the first item is pulled:
                // the start directory does not exist, so this is one failed `stat`, no traversal
                {
                    use wax::walk::{DepthBehavior, DepthMax, DepthMin, DepthMinMax, FileIterator};
                    let mut hs: Vec<DepthBehavior> = vec![
                        DepthMax(0).into(),
                        DepthMax(1).into(),
                        DepthMax(usize::MAX).into(),
                        DepthMin::from_min_or_unbounded(0),
                        DepthMin::from_min_or_unbounded(3),
                        DepthMin::from_min_or_unbounded(usize::MAX),
                        DepthMinMax::from_depths_or_max(0, 0),
                        DepthMinMax::from_depths_or_max(2, 1),
                        DepthMinMax::from_depths_or_max(1, usize::MAX),
                        DepthMinMax::from_depths_or_max(usize::MAX, usize::MAX),
                    ];
                    hs.extend(DepthBehavior::bounded(None, Some(0)));
                    hs.extend(DepthBehavior::bounded(Some(5), Some(2)));
                    hs.extend(DepthBehavior::bounded(Some(usize::MAX), None));
                    // never let a walk touch a real directory: only globs that are relative by
                    // every account (query, partition prefix, text) are iterated
                    let relative = g.has_root().is_never()
                        && !g.clone().partition().0.has_root()
                        && !text.starts_with('/')
                        && !text.contains('[');
                    for h in hs {
                        let w = g.walk_with_behavior("/nonexistent/waxverif", h);
                        if relative {
                            let mut w = w.not("**/x/**").expect("a literal negation builds");
                            let _ = w.next();
                        }
                        ops += 1;
                    }
                }
                ops += 6;
            },
        }
        let _ = text.parse::<Glob>();
        let _ = Glob::try_from(text);
        // combinators: alone, and beside companions that span the depth / root / text lattices
        // (`/` is the only pattern of depth zero; the empty pattern; bounded and unbounded depth)
        for a in [
            wax::any([text]),
            wax::any([text, "a*"]),
            wax::any([text, "/**"]),
            wax::any([text, "/"]),
            wax::any(["/", text]),
            wax::any(["", text]),
            wax::any([text, "<a/:1,2>b", "../c"]),
        ] {
            if let Ok(a) = a {
                let _ = a.depth();
                let _ = a.text();
                let _ = a.has_root();
                let _ = a.is_exhaustive();
                for p in fixed.iter().take(4).chain(paths.iter()) {
                    let _ = a.is_match(p.as_str());
                }
                let _ = a.clone();
            }
            ops += 5;
        }
        // the empty combinator (zero patterns), alone and as a member of another combinator
        if let Ok(empty) = wax::any(Vec::<&str>::new()) {
            let _ = empty.depth();
            let _ = empty.text();
            let _ = empty.has_root();
            let _ = empty.is_exhaustive();
            let _ = empty.is_match("");
            let _ = empty.is_match("a");
            let _ = wax::any([empty.clone()]).map(|a| a.is_match("a"));
            if let Ok(a) = wax::any([text]) {
                let _ = wax::any([a.clone(), empty.clone()]).map(|x| (x.depth(), x.is_match("a")));
                let _ = wax::any([empty.clone(), a]).map(|x| (x.is_exhaustive(), x.has_root()));
            }
            let _ = Path::new(".").walk().not(empty).is_ok();
            ops += 10;
        }
        let _ = Path::new(".").walk().not(text).is_ok();
        let _ = Path::new(".").walk().not(wax::any([text, "b"])).is_ok();
        ops += 2;
        (kind.to_string(), detail)
    });
    match r {
        Ok((kind, detail)) => Outcome { kind, detail, ops },
        Err(m) => Outcome { kind: "panic".into(), detail: m, ops },
    }
}

pub fn worker_main() {
    crate::engine::install_quiet_panic_hook();
    crate::isolate::serve(
        |line| {
            let case: Case = match serde_json::from_str(line) {
                Ok(c) => c,
                Err(e) => return json!({"kind": "infra", "detail": e.to_string(), "ops": 0}).to_string(),
            };
            serde_json::to_string(&exercise(&case.text, &case.paths)).unwrap()
        },
        30,
    );
}

/// In-process variant for the libFuzzer target: no worker, so only panics (caught) and compile
/// errors can be judged; inputs are kept below the nesting that overflows the stack (F-STACK).
pub fn judge_in_process(text: &str) -> Result<(), (Case, String)> {
    let nest = nesting(text);
    if nest >= 200 {
        return Ok(());
    }
    let o = exercise(text, &[]);
    let case = Case { text: text.to_string(), est: None, paths: vec![] };
    match o.kind.as_str() {
        "panic" => match classify_panic(&o.detail, max_number(text), nest) {
            Some(_) => Ok(()),
            None => Err((case, format!("expression {:?}: a public operation panicked: {}", text, o.detail))),
        },
        _ => Ok(()),
    }
}

// ------------------------------------------------------------------------------------------------
// parent side

thread_local! {
    static WORKER: RefCell<Option<Worker>> = RefCell::new(None);
}

pub enum Ran {
    Out(Outcome),
    Died(Death),
}

fn run_in_worker(case: &Case) -> Ran {
    WORKER.with(|w| {
        let mut w = w.borrow_mut();
        if w.is_none() {
            *w = Some(Worker::spawn("c05", false).expect("cannot spawn worker"));
        }
        let line = serde_json::to_string(case).unwrap();
        match w.as_mut().unwrap().request(&line) {
            Ok(ans) => match serde_json::from_str::<Outcome>(&ans) {
                Ok(o) => Ran::Out(o),
                Err(e) => Ran::Died(Death::Io(format!("bad answer {:?}: {}", ans, e))),
            },
            Err(d) => {
                *w = None;
                Ran::Died(d)
            },
        }
    })
}

// ------------------------------------------------------------------------------------------------
// generators

const EXTREME: &[&str] = &[
    "0", "1", "2", "255", "256", "65535", "65536", "2147483648", "4294967295", "4294967296", "4294967297",
    "9223372036854775808", "18446744073709551615", "18446744073709551616", "1000000000000000000000000000000",
];

fn est_expr(e: &Expr) -> u128 {
    e.iter()
        .map(|t| match t {
            Tok::Lit { text, .. } => text.chars().count() as u128,
            Tok::Alt(bs) => bs.iter().map(est_expr).sum::<u128>() + 1,
            Tok::Rep { body, lo, hi, .. } => est_expr(body).saturating_mul(hi.unwrap_or(*lo).max(*lo).max(1) as u128),
            Tok::Flag(_) => 0,
            _ => 1,
        })
        .fold(0u128, |a, b| a.saturating_add(b))
}

fn nesting(text: &str) -> usize {
    let mut d = 0usize;
    let mut m = 0usize;
    let mut esc = false;
    for c in text.chars() {
        if esc {
            esc = false;
            continue;
        }
        match c {
            '\\' => esc = true,
            '{' | '<' => {
                d += 1;
                m = m.max(d);
            },
            '}' | '>' => d = d.saturating_sub(1),
            _ => {},
        }
    }
    m
}

/// largest decimal number in the text (repetition bounds), saturating
fn max_number(text: &str) -> u128 {
    let mut best = 0u128;
    let mut cur: Option<u128> = None;
    for c in text.chars() {
        if let Some(d) = c.to_digit(10) {
            cur = Some(cur.unwrap_or(0).saturating_mul(10).saturating_add(d as u128));
        }
        else if let Some(v) = cur.take() {
            best = best.max(v);
        }
    }
    if let Some(v) = cur {
        best = best.max(v);
    }
    best
}

fn ladder(n: usize, kind: usize) -> String {
    let (o, c, inner) = match kind % 6 {
        0 => ("{", "}", "a"),
        1 => ("<", ">", "a"),
        2 => ("<", ":1>", "a"),
        3 => ("{a,", "}", "b"),
        4 => ("<a/", ":1,2>", "b"),
        _ => ("{[a]", "}", "*"),
    };
    let mut s = String::with_capacity(n * (o.len() + c.len()) + 4);
    for i in 0..n {
        if kind >= 6 && i % 2 == 1 {
            s.push('<');
        }
        else {
            s.push_str(o);
        }
    }
    s.push_str(inner);
    for i in (0..n).rev() {
        if kind >= 6 && i % 2 == 1 {
            s.push('>');
        }
        else {
            s.push_str(c);
        }
    }
    s
}

impl Property for C05 {
    type Case = Case;
    fn id(&self) -> &'static str {
        "C05"
    }
    fn rule(&self) -> String {
        "five generators: arbitrary UTF-8, meta-dense strings, valid ASTs with 0-3 string mutations, \
         ASTs with extreme repetition bounds (0 .. 10^30, every spelling, nested, adjacent open \
         ranges), nesting ladders (8 .. 20000 levels); every public operation is run on the result \
         in a worker process: Glob::new, FromStr, TryFrom, any (1-3 patterns, beside `/`, the empty pattern, rooted / bounded / unbounded companions), not-pattern \
         construction, walk construction, all queries, partition (+ queries on the postfix), \
         is_match / matched on 6 fixed + generated paths; one evaluation = one string through all \
         operations; non-trivial = the string has >= 2 distinct meta-characters or builds; \
         distinct by string"
            .into()
    }
    fn assumptions(&self) -> Vec<String> {
        vec![
            "a compile error (`oversized program`) is legitimate only when the reference estimate of the unrolled program reaches the calibrated threshold (1/10 of the smallest n for which `<[!a]:n>` is oversized); for mutated strings without an estimate compile errors are counted but not judged".into(),
            "a worker killed by the 30 s watchdog or by the address-space limit is reported as inconclusive (exit 2), never as a violation".into(),
        ]
    }
    fn budget(&self, tier: Tier) -> (u32, u32) {
        match tier {
            Tier::Quick => (2500, 8),
            Tier::Thorough => (60000, 16),
        }
    }
    fn required_counters(&self) -> Vec<&'static str> {
        vec!["outcome_ok", "outcome_parse", "outcome_rule", "extreme_bounds", "deep_nesting_100plus", "gen_arbitrary", "gen_meta_dense", "gen_mutated_ast"]
    }
    fn decode(&self, t: &mut Tape) -> Case {
        let paths = vec![gen_random_path(t), gen_random_path(t)];
        let which = t.weighted(&[20, 20, 25, 25, 10]);
        match which {
            0 => {
                // arbitrary UTF-8 from tape bytes
                let n = t.below(48);
                let bytes: Vec<u8> = (0..n).map(|_| t.byte()).collect();
                Case { text: format!("\u{1}{}", String::from_utf8_lossy(&bytes)), est: None, paths }
            },
            1 => {
                let n = t.below(24);
                let alpha = ['/', '?', '*', '$', ':', '<', '>', '(', ')', '[', ']', '{', '}', ',', '\\', '-', '!', 'a', '1', '0', 'é', 'i'];
                // characters whose upper- or lower-case form has another length in UTF-8 (sizes
                // of cased text are computed during the build), mostly behind a flag
                let odd = ['ı', 'İ', 'ſ', 'ß', 'ŉ', 'ɐ', 'ﬁ', 'ﬆ', 'Ⱥ', 'ⱦ', 'ι', 'K', '\u{feff}', '\t'];
                let mut s: String = (0..n).map(|_| if t.chance(24) { t.pick(&odd) } else { t.pick(&alpha) }).collect();
                if t.chance(40) {
                    s = format!("(?i){}{}", t.pick(&odd), s);
                }
                Case { text: format!("\u{2}{}", s), est: None, paths }
            },
            2 => {
                let e = gen_expr(t, &GenCfg::default());
                let s = render_text(&e);
                let k = t.below(4);
                let mut s2 = s;
                for _ in 0..k {
                    s2 = mutate_once(&s2, t);
                }
                let est = if k == 0 { Some(est_expr(&e).min(u64::MAX as u128) as u64) } else { None };
                Case { text: format!("\u{3}{}", s2), est, paths }
            },
            3 if t.chance(90) => {
                // saturation algebra: word-sized bounds meeting in concatenations, alternations
                // and nested repetitions (sums, unions and products of saturated ranges)
                let big = ["18446744073709551615", "18446744073709551614", "9223372036854775808", "9223372036854775807", "4294967296", "6148914691236517205"];
                let small = ["0", "1", "2", "3"];
                let rep = |t: &mut Tape| -> String {
                    let unit = t.pick(&["a", "a/", "*", "*/", "?", "[ab]", "ab"]);
                    let b = t.pick(&big);
                    let sm = t.pick(&small);
                    let b2 = t.pick(&big);
                    match t.below(8) {
                        0 => format!("<{}:{}>", unit, b),
                        1 => format!("<{}:{},>", unit, b),
                        2 => format!("<{}:{},{}>", unit, sm, b),
                        3 => format!("<{}:{},{}>", unit, b, b2),
                        4 => format!("<{}:{},{}>", unit, sm, match sm { "0" => "1", "1" => "2", "2" => "3", _ => "4" }),
                        5 => format!("<{}:{}>", unit, sm),
                        6 => format!("<{}:{},>", unit, sm),
                        _ => unit.to_string(),
                    }
                };
                let r: Vec<String> = (0..5).map(|_| rep(t)).collect();
                let s = match t.below(8) {
                    0 => format!("{{{}{},{}}}", r[0], r[1], r[2]),
                    1 => format!("{}{}{{{},{}}}", r[0], r[1], r[2], r[3]),
                    2 => format!("<{}{}:{}>", r[0], r[1], t.pick(&big)),
                    3 => format!("{{{},{}}}{{{},{}}}", r[0], r[1], r[2], r[3]),
                    4 => format!("{{{}{},{}{}}}x", r[0], r[1], r[2], r[3]),
                    5 => format!("<{{{},{}}}:{},{}>", r[0], r[1], t.pick(&small), t.pick(&big)),
                    6 => format!("{{{}{}{},{}}}", r[0], r[1], r[2], r[3]),
                    _ => format!("{}{{{}{},{}}}{}", r[0], r[1], r[2], r[3], r[4]),
                };
                Case { text: format!("\u{4}{}", s), est: None, paths }
            },
            3 => {
                // extreme bounds, textual (so that numbers beyond usize can be spelled)
                let mut c = GenCfg::default();
                c.weights = [30, 10, 5, 10, 6, 6, 8, 25];
                let e = gen_expr(t, &c);
                let mut s = render_text(&e);
                // replace some bound numbers
                let mut out = String::new();
                let mut chars = s.chars().peekable();
                let mut in_bounds = false;
                while let Some(ch) = chars.next() {
                    if ch == ':' {
                        in_bounds = true;
                        out.push(ch);
                        continue;
                    }
                    if ch == '>' {
                        in_bounds = false;
                    }
                    if in_bounds && ch.is_ascii_digit() {
                        while chars.peek().map_or(false, |c| c.is_ascii_digit()) {
                            chars.next();
                        }
                        if t.chance(140) {
                            out.push_str(t.pick(EXTREME));
                        }
                        else {
                            out.push(ch);
                        }
                        continue;
                    }
                    out.push(ch);
                }
                s = out;
                if t.chance(60) {
                    // adjacent ranges with open lower / upper ends
                    let a = t.pick(EXTREME);
                    let b = t.pick(EXTREME);
                    s.push_str(&format!("<a:0,{}><b:{},>", a, b));
                }
                if t.chance(40) {
                    let a = t.pick(EXTREME);
                    let b = t.pick(EXTREME);
                    s = format!("<<a*:{}>:{}>{}", a, b, s);
                }
                Case { text: format!("\u{4}{}", s), est: None, paths }
            },
            _ => {
                let n = t.pick(&[8usize, 32, 64, 100, 127, 128, 129, 130, 250]);
                let kind = t.below(12);
                Case { text: format!("\u{5}{}", ladder(n, kind)), est: None, paths }
            },
        }
    }
    fn directed(&self) -> Vec<Case> {
        let mut v = Vec::new();
        for s in [
            "<a:0,2><b:1,>",
            "<<a:4294967296>:4294967296>",
            "a/<b:18446744073709551615>/c*",
            "<a*:5000000000>",
            "<a/:0,2><b/:1,>",
            "<[!a]:100000>",
            "<a:1,18446744073709551615>*",
            "<a*:0,4294967296>",
            "{<a:18446744073709551615><b:1,2>,<a:18446744073709551615>}",
        ] {
            v.push(Case { text: format!("\u{4}{}", s), est: None, paths: vec![] });
        }
        for n in [500usize, 1000, 5000, 20000] {
            for kind in [0usize, 1, 6] {
                v.push(Case { text: format!("\u{5}{}", ladder(n, kind)), est: None, paths: vec![] });
            }
        }
        v
    }
    fn shrink(&self, c: &Case) -> Vec<Case> {
        let (tag, body) = split_tag(&c.text);
        let cs: Vec<char> = body.chars().collect();
        let mut out = Vec::new();
        if cs.len() > 80 {
            // ladders: halve from both ends symmetrically
            let q = cs.len() / 4;
            out.push(Case { text: format!("{}{}", tag, cs[q..cs.len() - q].iter().collect::<String>()), est: None, paths: vec![] });
            return out;
        }
        for i in 0..cs.len() {
            let s: String = cs.iter().enumerate().filter(|(j, _)| *j != i).map(|x| *x.1).collect();
            out.push(Case { text: format!("{}{}", tag, s), est: None, paths: c.paths.clone() });
        }
        if !c.paths.is_empty() {
            out.push(Case { text: c.text.clone(), est: c.est, paths: vec![] });
        }
        out
    }
    fn check(&self, case: &Case, st: &mut Stats) -> CheckResult {
        let (tag, body) = split_tag(&case.text);
        let text = body.to_string();
        match tag {
            "\u{1}" => st.count("gen_arbitrary"),
            "\u{2}" => st.count("gen_meta_dense"),
            "\u{3}" => st.count("gen_mutated_ast"),
            "\u{4}" => st.count("gen_extreme_bounds"),
            "\u{5}" => st.count("gen_ladder"),
            _ => {},
        }
        let nest = nesting(&text);
        let maxnum = max_number(&text);
        if maxnum >= 65536 {
            st.count("extreme_bounds");
        }
        if nest >= 100 {
            st.count("deep_nesting_100plus");
        }
        st.eval(1);
        let run = run_in_worker(&Case { text: text.clone(), est: case.est, paths: case.paths.clone() });
        let shown = if text.len() > 160 {
            let mut end = 80;
            while !text.is_char_boundary(end) {
                end += 1;
            }
            format!("{}…({} bytes, nesting {})", &text[..end], text.len(), nest)
        }
        else {
            text.clone()
        };
        let metas = {
            let mut v: Vec<char> = text.chars().filter(|c| "/?*$:<>()[]{},\\-!".contains(*c)).collect();
            v.sort();
            v.dedup();
            v.len()
        };
        match run {
            Ran::Out(o) => {
                match o.kind.as_str() {
                    "ok" => st.count("outcome_ok"),
                    "parse" => st.count("outcome_parse"),
                    "rule" => st.count("outcome_rule"),
                    "compile" => st.count("outcome_compile"),
                    "panic" => st.count("outcome_panic"),
                    _ => {},
                }
                if o.kind == "ok" || metas >= 2 {
                    st.nontrivial(text.as_str(), || json!({"expression": shown, "outcome": o.kind, "operations": o.ops}));
                }
                match o.kind.as_str() {
                    "panic" => {
                        if let Some(f) = classify_panic(&o.detail, maxnum, nest) {
                            st.known(f, || format!("`{}` → {}", shown, o.detail));
                            Ok(())
                        }
                        else {
                            Err(format!("expression {:?}: a public operation panicked: {}", shown, o.detail))
                        }
                    },
                    "compile" => {
                        match case.est {
                            Some(est) if est < threshold() => Err(format!(
                                "expression {:?}: compile error `{}` although the unrolled program is small (estimate {} tokens, threshold {})",
                                shown, o.detail, est, threshold()
                            )),
                            Some(_) => Ok(()),
                            None => {
                                st.count("compile_error_not_judged");
                                Ok(())
                            },
                        }
                    },
                    "infra" => {
                        st.count("infra_errors");
                        Ok(())
                    },
                    _ => Ok(()),
                }
            },
            Ran::Died(Death::Signal(14)) => {
                st.count("watchdog_inconclusive");
                Ok(())
            },
            Ran::Died(d) => {
                if let Death::Signal(_) = d {
                    if nest >= 500 && crate::findings::is_open("F-STACK", "C05") {
                        st.known("F-STACK", || format!("`{}` → worker died: {:?}", shown, d));
                        return Ok(());
                    }
                }
                Err(format!("expression {:?}: the process running the operations died: {:?} (abort / stack overflow)", shown, d))
            },
        }
    }
}

fn split_tag(s: &str) -> (&str, &str) {
    match s.chars().next() {
        Some(c) if ('\u{1}'..='\u{5}').contains(&c) => s.split_at(c.len_utf8()),
        _ => ("", s),
    }
}

fn mutate_once(s: &str, t: &mut Tape) -> String {
    let mut cs: Vec<char> = s.chars().collect();
    let n = cs.len();
    let alpha = ['/', '?', '*', '$', ':', '<', '>', '(', ')', '[', ']', '{', '}', ',', '\\', '-', '!', 'a', '9', 'é'];
    match t.below(4) {
        0 if n > 0 => {
            cs.remove(t.below(n));
        },
        1 => {
            cs.insert(t.below(n + 1), t.pick(&alpha));
        },
        2 if n > 0 => {
            let i = t.below(n);
            cs[i] = t.pick(&alpha);
        },
        _ if n > 0 => {
            let i = t.below(n);
            let c = cs[i];
            cs.insert(i, c);
        },
        _ => cs.push(t.pick(&alpha)),
    }
    cs.into_iter().collect()
}

/// classify a panic message against the open findings
fn classify_panic(detail: &str, maxnum: u128, nest: usize) -> Option<&'static str> {
    if detail.starts_with("overflow determining") && maxnum >= (1u128 << 31) && crate::findings::is_open("F-OVERFLOW", "C05") {
        return Some("F-OVERFLOW");
    }
    if detail.starts_with("failed to compile glob") && (maxnum > u32::MAX as u128 || nest >= 40) && crate::findings::is_open("F-REGEX-ERR", "C05") {
        return Some("F-REGEX-ERR");
    }
    if detail.starts_with("failed to compile walk program") && (maxnum > u32::MAX as u128 || nest >= 40) && crate::findings::is_open("F-REGEX-ERR", "C05") {
        return Some("F-REGEX-ERR");
    }
    None
}

/// calibrated once per process: smallest n for which `<[!a]:n>` is oversized, divided by 10
fn threshold() -> u64 {
    use std::sync::OnceLock;
    static T: OnceLock<u64> = OnceLock::new();
    *T.get_or_init(|| {
        let oversized = |n: u64| -> bool {
            match wax::Glob::new(&format!("<[!a]:{}>", n)) {
                Err(e) => e.verif_kind() == "compile",
                Ok(_) => false,
            }
        };
        let mut lo = 1u64;
        let mut hi = 1u64;
        while !oversized(hi) && hi < (1 << 24) {
            lo = hi;
            hi *= 2;
        }
        while lo + 1 < hi {
            let mid = (lo + hi) / 2;
            if oversized(mid) {
                hi = mid;
            }
            else {
                lo = mid;
            }
        }
        (hi / 10).max(8)
    })
}
