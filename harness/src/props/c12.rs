//! C12 — Root and semantic-literal queries agree with what the pattern matches.

use crate::ast::*;
use crate::engine::*;
use crate::gen::*;
use crate::props::common::*;
use serde_json::json;
use wax::query::When;
use wax::Program;

pub struct C12;

/// Reference scan for clause (c): some concatenation (any depth) has a maximal boundary-free run
/// of tokens that are all literals with joined text `.` or `..`, and the run is a whole path
/// component: delimited on each side by a boundary token of the same concatenation, or by the end
/// of the concatenation when what lies beyond that end (in the enclosing expression) is again a
/// boundary or the end of the whole expression.
pub fn has_dot_component(e: &Expr) -> (bool, bool) {
    // returns (found, found nested >= 1 deep)
    fn go(e: &Expr, left_ok: bool, right_ok: bool, depth: usize, found: &mut bool, nested: &mut bool) {
        let toks: Vec<&Tok> = e.iter().filter(|t| !t.is_flag()).collect();
        let n = toks.len();
        let mut i = 0;
        while i < n {
            if toks[i].is_boundary() {
                i += 1;
                continue;
            }
            let start = i;
            while i < n && !toks[i].is_boundary() {
                i += 1;
            }
            let run = &toks[start..i];
            if run.iter().all(|t| matches!(t, Tok::Lit { .. })) {
                let text: String = run
                    .iter()
                    .map(|t| match t {
                        Tok::Lit { text, .. } => text.as_str(),
                        _ => "",
                    })
                    .collect();
                let l = if start == 0 { left_ok } else { true };
                let r = if i == n { right_ok } else { true };
                if (text == "." || text == "..") && l && r {
                    *found = true;
                    if depth >= 1 {
                        *nested = true;
                    }
                }
            }
        }
        for (k, t) in toks.iter().enumerate() {
            let l = if k == 0 { left_ok } else { toks[k - 1].is_boundary() };
            let r = if k + 1 == n { right_ok } else { toks[k + 1].is_boundary() };
            match t {
                Tok::Alt(bs) => {
                    for b in bs {
                        go(b, l, r, depth + 1, found, nested);
                    }
                },
                Tok::Rep { body, hi, .. } => {
                    // a body that may repeat is only delimited by its neighbours if it also
                    // delimits itself; keep it simple: require exactly-once for edge runs
                    let once = *hi == Some(1);
                    go(body, l && once, r && once, depth + 1, found, nested);
                },
                _ => {},
            }
        }
    }
    let mut found = false;
    let mut nested = false;
    go(e, true, true, 0, &mut found, &mut nested);
    (found, nested)
}

fn gen_dot_expr(t: &mut Tape) -> Expr {
    // components with `.` / `..` at depth 0–2 and near misses
    fn comp(t: &mut Tape) -> Vec<Tok> {
        match t.below(10) {
            0 | 1 => vec![Tok::lit(".")],
            2 | 3 => vec![Tok::lit("..")],
            4 => vec![Tok::lit("...")],
            5 => vec![Tok::lit(".a")],
            6 => vec![Tok::lit("a.")],
            7 => vec![Tok::Class { neg: false, items: vec![Item::Ch('.')] }],
            8 => vec![Tok::lit("."), Tok::Flag(vec![true, false]), Tok::lit(".")],
            _ => vec![Tok::lit("a")],
        }
    }
    fn seq(t: &mut Tape, depth: usize) -> Expr {
        let n = 1 + t.below(3);
        let mut e: Expr = Vec::new();
        for i in 0..n {
            if i > 0 {
                if t.chance(40) {
                    e.push(Tok::Tree { lead: true, trail: true });
                }
                else {
                    e.push(Tok::Sep);
                }
            }
            let k = t.below(10);
            if depth < 2 && k < 3 {
                let nb = 1 + t.below(2);
                e.push(Tok::Alt((0..nb).map(|_| seq(t, depth + 1)).collect()));
            }
            else if depth < 2 && k < 5 {
                let (lo, hi) = t.pick(&[(1, Some(1)), (1, Some(2)), (0, Some(1)), (2, Some(2))]);
                let mut body = seq(t, depth + 1);
                if t.chance(128) {
                    body.push(Tok::Sep);
                }
                e.push(Tok::Rep { body, lo, hi, spell: 0 });
            }
            else {
                e.extend(comp(t));
                if t.chance(30) {
                    e.push(Tok::Zom { lazy: false });
                }
            }
        }
        e
    }
    let mut e = seq(t, 0);
    if t.chance(60) {
        e.insert(0, Tok::Sep);
    }
    normalize(&e, true)
}

/// shapes around the rooting rules: a rooted unit (`/a`, `/**/a`, `</a:1,>`, `{/a}` …) nested at
/// the start of alternation branches / repetition bodies, with and without tokens after it, next
/// to unrooted siblings.  Most must not build; whatever builds must be Always or Never rooted.
fn gen_rooting_expr(t: &mut Tape) -> Expr {
    fn unit(t: &mut Tape, depth: usize) -> Vec<Tok> {
        let a = Tok::lit(t.pick(&["a", "b"]));
        match t.below(if depth < 2 { 6 } else { 2 }) {
            0 => vec![Tok::Sep, a],
            1 => vec![Tok::Tree { lead: true, trail: true }, a],
            2 | 3 => {
                let (lo, hi) = t.pick(&[(1, None), (1, Some(1)), (2, Some(2)), (0, None), (1, Some(2)), (0, Some(1))]);
                let mut body = unit(t, depth + 1);
                if t.chance(60) {
                    body.push(Tok::lit("x"));
                }
                vec![Tok::Rep { body, lo, hi, spell: 0 }]
            },
            4 => vec![Tok::Alt(vec![unit(t, depth + 1)])],
            _ => vec![Tok::Alt(vec![unit(t, depth + 1), vec![Tok::lit("c")]])],
        }
    }
    let mut first = unit(t, 0);
    if t.chance(140) {
        first.push(Tok::lit(t.pick(&["b", "y"])));
    }
    if t.chance(40) {
        first.push(Tok::Sep);
        first.push(Tok::Zom { lazy: false });
    }
    let mut branches = vec![first];
    if t.chance(200) {
        branches.push(vec![Tok::lit("c")]);
    }
    if t.chance(60) {
        let last = branches.len() - 1;
        branches.swap(0, last.min(1));
    }
    let mut e = vec![Tok::Alt(branches)];
    match t.below(5) {
        0 => e = vec![Tok::Rep { body: e, lo: 1, hi: None, spell: 0 }],
        1 => e.push(Tok::lit("z")),
        2 => e = vec![Tok::Alt(vec![e, vec![Tok::lit("d")]])],
        3 => {
            e.insert(0, Tok::Rep { body: vec![Tok::lit("p")], lo: 0, hi: Some(1), spell: 0 });
        },
        _ => {},
    }
    if t.chance(70) {
        // shielded by a literal (and a prefix in front of that): `a{/b,c}`, `x/a</b:0,>`
        e.insert(0, Tok::lit("q"));
        if t.chance(90) {
            e.insert(0, Tok::Sep);
            e.insert(0, Tok::lit("x"));
        }
    }
    normalize(&e, true)
}

impl Property for C12 {
    type Case = PatCase;
    fn id(&self) -> &'static str {
        "C12"
    }
    fn rule(&self) -> String {
        "rule-aware glob ASTs (incl. rooted shapes `/x`, `/**`, `/**/x`, `</a:1,>`) and a directed \
         family with `.` / `..` components at depth 0-2 and near misses, and any() of two to five; \
         clause (a): has_root() == Always => every matched pool path starts with `/`; clause (b): \
         a glob never reports Sometimes; clause (c): reference dot-component scan => \
         has_semantic_literals(); one evaluation = one (pattern, path) or one scan; non-trivial = \
         an always-rooted pattern with a matched path, or a dot component nested >= 1 deep; \
         distinct by (pattern, path)"
            .into()
    }
    fn assumptions(&self) -> Vec<String> {
        vec![
            "the converse of clause (c) is not claimed and not checked".into(),
            "a dot run at the edge of a repetition body counts only when the repetition happens exactly once".into(),
        ]
    }
    fn budget(&self, tier: Tier) -> (u32, u32) {
        match tier {
            Tier::Quick => (5000, 8),
            Tier::Thorough => (200000, 16),
        }
    }
    fn required_counters(&self) -> Vec<&'static str> {
        vec!["rooting_family_built", "root_always", "root_never", "root_sometimes_any", "always_rooted_matched", "partition_postfix_judged", "dot_component", "dot_component_nested", "dot_near_miss"]
    }
    fn decode(&self, t: &mut Tape) -> PatCase {
        // one glob, or a combinator of 2-5 (the root verdict of a combinator folds over *all* of
        // its members: rooted, rooted, unrooted must not be `Always`)
        let n = 1 + t.weighted(&[64, 12, 10, 8, 6]);
        let exprs: Vec<Expr> = (0..n)
            .map(|_| {
                if t.chance(100) {
                    gen_dot_expr(t)
                }
                else if t.chance(60) {
                    gen_rooting_expr(t)
                }
                else {
                    let mut cfg = GenCfg::default();
                    cfg.weights = [30, 18, 5, 9, 13, 5, 11, 11];
                    if t.chance(90) {
                        // rule-agnostic: shapes the rules ought to reject (rooted branches nested
                        // at the start of branches); whatever builds must still be Always / Never
                        cfg.violate = 70;
                        cfg.weights = [26, 24, 2, 6, 12, 2, 16, 14];
                        cfg.noise_flags = 0;
                    }
                    gen_expr(t, &cfg)
                }
            })
            .collect();
        let mut exprs = exprs;
        add_empty_member(t, &mut exprs);
        let mut paths = pat_pool(t, &exprs, 1);
        paths.push("a".into());
        paths.sort();
        paths.dedup();
        PatCase { exprs, paths }
    }
    fn directed(&self) -> Vec<PatCase> {
        vec![PatCase { exprs: vec![vec![Tok::Tree { lead: true, trail: false }]], paths: vec!["a".into(), "".into(), "/a".into()] }]
    }
    fn shrink(&self, c: &PatCase) -> Vec<PatCase> {
        shrink_patcase(c)
    }
    fn check(&self, case: &PatCase, st: &mut Stats) -> CheckResult {
        let (text, pat) = match build_pat(&case.exprs) {
            Ok(Some(x)) => x,
            Ok(None) => {
                st.count("not_built");
                return Ok(());
            },
            Err(_) => {
                st.panicked += 1;
                return Ok(());
            },
        };
        let root = match guard(|| pat.has_root()) {
            Ok(x) => x,
            Err(_) => {
                st.panicked += 1;
                return Ok(());
            },
        };
        if case.exprs.iter().any(|e| any_tok(e, &|t, d| d >= 1 && matches!(t, Tok::Sep | Tok::Tree { lead: true, .. }))) {
            st.count("rooting_family_built");
        }
        match root {
            When::Always => st.count("root_always"),
            When::Never => st.count("root_never"),
            When::Sometimes => {
                if pat.is_any() {
                    st.count("root_sometimes_any");
                }
                else {
                    // (b)
                    if crate::findings::is_open("F-RULE-ROOT", "C12") && sometimes_trigger(&case.exprs[0]) {
                        st.known("F-RULE-ROOT", || format!("{} has_root() == Sometimes", text));
                    }
                    else {
                        return Err(format!("glob {} reports has_root() == Sometimes", text));
                    }
                }
            },
        }
        // (b) also for the glob a partition hands back: it is a glob like any other (`a{/b,c}` is
        // shielded by its literal; a postfix `{/b,c}` would be rooted only sometimes)
        if let Some(g) = pat.glob() {
            if let Ok((_, Some(post))) = guard(|| g.clone().partition()) {
                st.count("partition_postfix_judged");
                if let Ok(When::Sometimes) = guard(|| post.has_root()) {
                    return Err(format!(
                        "glob {}: its partition postfix `{}` reports has_root() == Sometimes",
                        text, post
                    ));
                }
            }
        }
        // (a)
        if root == When::Always {
            for p in &case.paths {
                st.eval(1);
                if pat.is_match(p) {
                    st.count("always_rooted_matched");
                    if !p.starts_with('/') {
                        return Err(format!(
                            "{} reports has_root() == Always but matches {:?}, which does not begin with a separator",
                            text, p
                        ));
                    }
                    st.nontrivial(&(text.as_str(), p.as_str()), || json!({"pattern": text, "has_root": "Always", "matched": p}));
                }
            }
        }
        // (c) globs only
        if let Some(g) = pat.glob() {
            let e = merge_lits(&strip_flags(&case.exprs[0]));
            let (found, nested) = has_dot_component(&case.exprs[0]);
            let _ = e;
            st.eval(1);
            if found {
                st.count("dot_component");
                if nested {
                    st.count("dot_component_nested");
                }
                let _ = g;
                let has = match guard(|| pat.has_semantic_literals().unwrap_or(false)) {
                    Ok(x) => x,
                    Err(_) => {
                        st.panicked += 1;
                        return Ok(());
                    },
                };
                if !has {
                    return Err(format!(
                        "glob {} spells a whole component as the literal `.` or `..` but has_semantic_literals() == false",
                        text
                    ));
                }
                if nested {
                    st.nontrivial(&(text.as_str(), "dots"), || json!({"glob": text, "has_semantic_literals": true}));
                }
            }
            else if text.contains('.') {
                st.count("dot_near_miss");
            }
        }
        Ok(())
    }
}

/// F-RULE-ROOT trigger (shared with C06): a branch that can root the expression is reachable at
/// the start of the expression (wax's rule check missed it).
pub fn sometimes_trigger(e: &Expr) -> bool {
    crate::refrules::rooting_violation(&strip_flags(e))
}
