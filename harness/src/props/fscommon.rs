//! Helpers shared by the file-system properties (C02, C03, C13–C16, C20).

use crate::ast::*;
use crate::fsmodel::*;
use crate::gen::*;
use serde::{Deserialize, Serialize};
use std::path::{Path, PathBuf};

#[derive(Serialize, Deserialize, Clone, Debug, PartialEq, Eq)]
pub enum Base {
    /// absolute path of the tree root
    Abs,
    /// … with a trailing separator
    AbsSlash,
    /// … with a trailing `/.`
    AbsDot,
    /// relative to the current working directory
    Rel,
    /// a sub-directory of the tree (relative path inside the tree) is the base
    Sub(String),
    /// the parent of the tree root is the base (the tree is its child `t`)
    Parent,
    /// the tree root is the current working directory and the base is `.` (false) or `./` (true).
    /// Changing the working directory is process-wide: such cases are only ever run
    /// sequentially (the `extra` stage and replays), never by the shard threads
    Cwd(bool),
}

/// Makes the tree root the working directory for a `Base::Cwd` case; restores the previous one when dropped
/// (declare it *after* the `Scratch` so that it is dropped first).
pub struct CwdGuard(PathBuf);

pub fn enter_cwd(base: &Base, s: &Scratch) -> Option<CwdGuard> {
    if let Base::Cwd(_) = base {
        let back = std::env::current_dir().unwrap_or_else(|_| PathBuf::from("/"));
        if std::env::set_current_dir(&s.root).is_ok() {
            return Some(CwdGuard(back));
        }
    }
    None
}

impl Drop for CwdGuard {
    fn drop(&mut self) {
        if std::env::set_current_dir(&self.0).is_err() {
            let _ = std::env::set_current_dir("/");
        }
    }
}

/// deterministic tape bytes for the sequential `Base::Cwd` stage (fixed work, no RNG state)
pub fn fixed_tape(k: u64, len: usize) -> Vec<u8> {
    let mut x = 0x9E37_79B9_7F4A_7C15u64 ^ k.wrapping_mul(0xBF58_476D_1CE4_E5B9);
    (0..len)
        .map(|_| {
            x ^= x << 13;
            x ^= x >> 7;
            x ^= x << 17;
            // small values are the simple choices: bias the bytes downwards like proptest's do
            let b = (x >> 32) as u8;
            if (x >> 40) & 3 == 0 { b } else { b / 3 }
        })
        .collect()
}

pub fn gen_base(t: &mut Tape, tree: &TreeSpec) -> Base {
    match t.weighted(&[40, 12, 12, 14, 12, 10]) {
        0 => Base::Abs,
        1 => Base::AbsSlash,
        2 => Base::AbsDot,
        3 => Base::Rel,
        4 => {
            let dirs: Vec<&Node> = tree.nodes.iter().filter(|n| n.kind == Kind::Dir && !n.unreadable).collect();
            if dirs.is_empty() {
                Base::Abs
            }
            else {
                Base::Sub(t.pick(&dirs).path.clone())
            }
        },
        _ => Base::Parent,
    }
}

/// (the path handed to wax, the same directory as a plain absolute path)
pub fn base_paths(base: &Base, s: &Scratch) -> (PathBuf, PathBuf) {
    let root = s.root.clone();
    match base {
        Base::Abs => (root.clone(), root),
        Base::AbsSlash => (PathBuf::from(format!("{}/", root.display())), root),
        Base::AbsDot => (PathBuf::from(format!("{}/.", root.display())), root),
        Base::Rel => {
            // only if the relative spelling really names the tree root for this process
            use std::os::unix::fs::MetadataExt;
            let rel = relative_from_cwd(&root).filter(|r| match (std::fs::metadata(r), std::fs::metadata(&root)) {
                (Ok(a), Ok(b)) => a.dev() == b.dev() && a.ino() == b.ino(),
                _ => false,
            });
            (rel.unwrap_or_else(|| root.clone()), root)
        },
        Base::Sub(p) => (root.join(p), root.join(p)),
        Base::Parent => {
            let p = root.parent().unwrap().to_path_buf();
            (p.clone(), p)
        },
        Base::Cwd(slash) => (PathBuf::from(if *slash { "./" } else { "." }), root),
    }
}

/// number of `.` / `..` components in the invariant prefix of a glob, however they are spelled
/// (`..`, `[.][.]`, `{..}`, `<.:2>`): the walk interprets them as native path components, so a
/// check must know about every one of them (and never follow them out of the scratch directory)
pub fn prefix_dot_components(g: &wax::Glob<'_>) -> usize {
    let (pre, _) = g.clone().partition();
    pre.to_string_lossy().split('/').filter(|c| *c == "." || *c == "..").count()
}

/// file and directory names that occur in the tree (used as literal texts of generated globs)
pub fn tree_names(tree: &TreeSpec) -> Vec<String> {
    // (names that are not valid UTF-8 cannot be spelled in a glob; wildcards reach them through
    // their lossy text.  Names with a backslash — an ordinary character on Unix — are left to the
    // wildcards too: in a glob the backslash is the escape)
    let mut v: Vec<String> = tree.nodes.iter().filter_map(|n| n.path.rsplit('/').next().map(String::from)).filter(|s| !s.contains(RAW) && !s.contains('\\')).collect();
    v.push("t".into());
    v.sort();
    v.dedup();
    v
}

pub fn fs_glob_cfg(tree: &TreeSpec) -> GenCfg {
    let mut c = GenCfg::default();
    c.names = Some(tree_names(tree));
    c.allow_rooted = false;
    c.max_toks = 5;
    c.max_depth = 2;
    c.noise_flags = 4;
    c.class_sep = 0;
    c.ci = 25;
    c.weights = [30, 22, 5, 14, 12, 5, 8, 6];
    c
}

/// literal tokens spelling a native path as a glob prefix: `a/b` → [a, /, b, /]
pub fn literal_prefix(path: &str, trailing_sep: bool) -> Expr {
    let mut e = Vec::new();
    if path.starts_with('/') {
        e.push(Tok::Sep);
    }
    let comps: Vec<&str> = path.split('/').filter(|c| !c.is_empty()).collect();
    for (i, c) in comps.iter().enumerate() {
        e.push(Tok::lit(c));
        if i + 1 < comps.len() || trailing_sep {
            e.push(Tok::Sep);
        }
    }
    e
}

/// one observed item of a wax walk
#[derive(Clone, Debug, PartialEq, Eq, PartialOrd, Ord)]
pub enum Seen {
    Ok { path: String, depth: usize, is_dir: bool },
    Err { path: Option<String>, depth: usize },
}

pub fn norm(p: &Path) -> String {
    // component-wise spelling: `a//b/`, `a/./b` and `a/b` are the same path
    let mut out = String::new();
    for c in p.components() {
        use std::path::Component::*;
        match c {
            RootDir => out.push('/'),
            CurDir => {
                if out.is_empty() {
                    out.push_str("./");
                }
            },
            ParentDir => {
                out.push_str("../");
            },
            Normal(x) => {
                out.push_str(&x.to_string_lossy());
                out.push('/');
            },
            Prefix(_) => {},
        }
    }
    while out.len() > 1 && out.ends_with('/') {
        out.pop();
    }
    out
}

/// drain a wax walk with a hard item cap (an infinite walk on a finite tree is a violation of
/// C15, never a hang of the harness)
pub fn drain<E: wax::walk::Entry>(
    it: impl Iterator<Item = Result<E, wax::walk::WalkError>>,
    cap: usize,
) -> (Vec<Seen>, bool) {
    let mut out = Vec::new();
    let mut capped = false;
    for item in it {
        if out.len() >= cap {
            capped = true;
            break;
        }
        match item {
            Ok(e) => out.push(Seen::Ok { path: norm(e.path()), depth: e.depth(), is_dir: e.file_type().is_dir() }),
            Err(e) => out.push(Seen::Err { path: e.path().map(norm), depth: e.depth() }),
        }
    }
    (out, capped)
}
