pub mod common;
pub mod c01;
pub mod c02;
pub mod c03;
pub mod fscommon;
pub mod c04;
pub mod c05;
pub mod c06;
pub mod c07;
pub mod c08;
pub mod c09;
pub mod c10;
pub mod c11;
pub mod c12;
pub mod c17;
pub mod c18;
pub mod c19;

use crate::engine::{self, Property, Tier};
use std::path::Path;

pub fn run<P: Property>(p: &P, tier: Tier, seed: u64, replay: Option<&str>) -> i32 {
    if let Some(f) = replay {
        return engine::replay_file(p, Path::new(f));
    }
    let out = engine::run_property(p, tier, seed);
    let report = engine::build_report(p, tier, seed, out);
    engine::finish(p.id(), report)
}

pub fn dispatch(id: &str, tier: Tier, seed: u64, replay: Option<&str>) -> i32 {
    match id {
        "C01" => run(&c01::C01, tier, seed, replay),
        "C02" => run(&c02::C02, tier, seed, replay),
        "C03" => run(&c03::C03, tier, seed, replay),
        "C04" => run(&c04::C04, tier, seed, replay),
        "C05" => run(&c05::C05, tier, seed, replay),
        "C06" => run(&c06::C06, tier, seed, replay),
        "C07" => run(&c07::C07, tier, seed, replay),
        "C08" => run(&c08::C08, tier, seed, replay),
        "C09" => run(&c09::C09, tier, seed, replay),
        "C10" => run(&c10::C10, tier, seed, replay),
        "C11" => run(&c11::C11, tier, seed, replay),
        "C12" => run(&c12::C12, tier, seed, replay),
        "C17" => run(&c17::C17, tier, seed, replay),
        "C18" => run(&c18::C18, tier, seed, replay),
        "C19" => run(&c19::C19, tier, seed, replay),
        _ => {
            eprintln!("unknown property id {}", id);
            2
        },
    }
}
