pub mod common;
pub mod c01;
pub mod c02;
pub mod c03;
pub mod fscommon;
pub mod c04;
pub mod c05;
pub mod c06;
pub mod c07;
pub mod c08;
pub mod c09;
pub mod c10;
pub mod c11;
pub mod c12;
pub mod c13;
pub mod c14;
pub mod c15;
pub mod c16;
pub mod stacks;
pub mod c17;
pub mod c18;
pub mod c19;
pub mod c20;

use crate::engine::{self, Property, Tier};
use std::path::Path;

pub fn run<P: Property>(p: &P, tier: Tier, seed: u64, replay: Option<&str>) -> i32 {
    if let Some(f) = replay {
        return engine::replay_file(p, Path::new(f));
    }
    let mut out = engine::run_property(p, tier, seed);
    // thorough tier: a libFuzzer campaign with the same in-target oracle as secondary engine
    let fuzz = match (tier, p.id()) {
        (Tier::Thorough, "C01") => Some(("t_match", 15_000u64, 384u32)),
        (Tier::Thorough, "C05") => Some(("t_total", 60_000, 256)),
        (Tier::Thorough, "C06") => Some(("t_rules", 40_000, 384)),
        (Tier::Thorough, "C17") => Some(("t_spans", 150_000, 128)),
        (Tier::Thorough, "C18") => Some(("t_escape", 150_000, 128)),
        _ => None,
    };
    let mut infra: Option<String> = None;
    if let (Some((target, runs, max_len)), true) = (fuzz, out.violations.is_empty()) {
        let f = engine::fuzz_stage(target, runs, seed, max_len);
        out.stats.add(&format!("libfuzzer_{}_runs", target), f.runs);
        out.stats.add(&format!("libfuzzer_{}_cov", target), f.cov);
        out.stats.add(&format!("libfuzzer_{}_corpus", target), f.corpus);
        out.stats.evaluations += f.runs;
        for r in &f.replays {
            // re-judge through the deterministic replay path before reporting
            match engine::load_case::<P>(r) {
                Ok(case) => {
                    let mut st = engine::Stats::default();
                    if let Err(m) = p.check(&case, &mut st) {
                        out.violations.push((serde_json::to_value(&case).unwrap(), format!("[found by libFuzzer target {}] {}", target, m)));
                    }
                },
                Err(e) => infra = Some(format!("cannot load fuzz replay {}: {}", r.display(), e)),
            }
        }
        if !f.raw_crashes.is_empty() {
            infra = Some(format!("libFuzzer target {} crashed without an oracle report; inputs kept: {:?}", target, f.raw_crashes));
        }
        if let Some(e) = f.infra_error {
            infra = Some(e);
        }
    }
    let report = engine::build_report(p, tier, seed, out);
    let code = engine::finish(p.id(), report);
    if code == 0 {
        if let Some(e) = infra {
            eprintln!("INFRA: {}", e);
            return 2;
        }
    }
    code
}

/// Run a property in a child process as uid nobody when we are root (so that chmod 000 is a real
/// fault); the child prints its report as JSON, the parent writes evidence and violation files.
pub fn run_unprivileged<P: Property>(p: &P, tier: Tier, seed: u64, replay: Option<&str>) -> i32 {
    let is_child = std::env::var("WAXVERIF_CHILD").is_ok();
    let root = unsafe { libc::geteuid() } == 0;
    if !root || is_child {
        if let Some(f) = replay {
            return engine::replay_file(p, Path::new(f));
        }
        let out = engine::run_property(p, tier, seed);
        let report = engine::build_report(p, tier, seed, out);
        if is_child {
            println!("WAXVERIF-REPORT {}", serde_json::to_string(&report).unwrap());
            return 0;
        }
        return engine::finish(p.id(), report);
    }
    use std::os::unix::process::CommandExt;
    let exe = std::env::current_exe().expect("current_exe");
    let mut cmd = std::process::Command::new(exe);
    cmd.arg(p.id()).arg("--tier").arg(tier.name()).arg("--seed").arg(seed.to_string());
    if let Some(f) = replay {
        cmd.arg("--replay").arg(f);
    }
    cmd.env("WAXVERIF_CHILD", "1").env_remove("RUST_BACKTRACE");
    cmd.uid(65534).gid(65534);
    unsafe {
        cmd.pre_exec(|| {
            libc::setgroups(0, std::ptr::null());
            Ok(())
        });
    }
    let out = match cmd.output() {
        Ok(o) => o,
        Err(e) => {
            eprintln!("cannot start the unprivileged child: {}", e);
            return 2;
        },
    };
    let stdout = String::from_utf8_lossy(&out.stdout);
    if replay.is_some() {
        print!("{}", stdout);
        return out.status.code().unwrap_or(2);
    }
    for line in stdout.lines() {
        if let Some(js) = line.strip_prefix("WAXVERIF-REPORT ") {
            match serde_json::from_str::<engine::Report>(js) {
                Ok(r) => return engine::finish(p.id(), r),
                Err(e) => {
                    eprintln!("bad report from child: {}", e);
                    return 2;
                },
            }
        }
        else {
            println!("{}", line);
        }
    }
    eprintln!("the unprivileged child produced no report (status {:?}): {}", out.status, String::from_utf8_lossy(&out.stderr));
    2
}

pub fn dispatch(id: &str, tier: Tier, seed: u64, replay: Option<&str>) -> i32 {
    match id {
        "C01" => run(&c01::C01, tier, seed, replay),
        "C02" => run(&c02::C02, tier, seed, replay),
        "C03" => run(&c03::C03, tier, seed, replay),
        "C04" => run(&c04::C04, tier, seed, replay),
        "C05" => run(&c05::C05, tier, seed, replay),
        "C06" => run(&c06::C06, tier, seed, replay),
        "C07" => run(&c07::C07, tier, seed, replay),
        "C08" => run(&c08::C08, tier, seed, replay),
        "C09" => run(&c09::C09, tier, seed, replay),
        "C10" => run(&c10::C10, tier, seed, replay),
        "C11" => run(&c11::C11, tier, seed, replay),
        "C12" => run(&c12::C12, tier, seed, replay),
        "C13" => run_unprivileged(&c13::C13, tier, seed, replay),
        "C14" => run(&c14::C14, tier, seed, replay),
        "C15" => run(&c15::C15, tier, seed, replay),
        "C16" => run(&c16::C16, tier, seed, replay),
        "C17" => run(&c17::C17, tier, seed, replay),
        "C18" => run(&c18::C18, tier, seed, replay),
        "C19" => run(&c19::C19, tier, seed, replay),
        "C20" => run_unprivileged(&c20::C20, tier, seed, replay),
        _ => {
            eprintln!("unknown property id {}", id);
            2
        },
    }
}
