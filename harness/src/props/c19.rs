//! C19 — Re-expressing or re-owning a pattern does not change its behaviour.

use crate::ast::*;
use crate::engine::*;
use crate::gen::*;
use crate::props::common::*;
use serde::{Deserialize, Serialize};
use serde_json::json;
use wax::{Any, CandidatePath, Glob, Program};

pub struct C19;

#[derive(Serialize, Deserialize, Clone, Debug)]
pub struct Case {
    pub expr: Expr,
    pub others: Vec<Expr>,
    pub paths: Vec<String>,
}

/// everything observable about a glob on a set of paths, as one comparable value
fn observe_glob(g: &Glob<'_>, paths: &[String]) -> Vec<String> {
    let mut out = Vec::new();
    out.push(format!("display={}", g));
    out.push(format!("depth={:?}", g.depth()));
    out.push(format!("text={:?}", g.text()));
    out.push(format!("root={:?}", g.has_root()));
    out.push(format!("exh={:?}", g.is_exhaustive()));
    out.push(format!("sem={:?}", g.has_semantic_literals()));
    out.push(format!("empty={:?}", g.is_empty()));
    let caps: Vec<(usize, (usize, usize))> = g.captures().map(|c| (c.index(), c.span())).collect();
    out.push(format!("captures={:?}", caps));
    let n = caps.len();
    let (pre, post) = g.clone().partition();
    out.push(format!("partition=({:?},{:?})", pre, post.as_ref().map(|p| p.to_string())));
    if let Some(post) = &post {
        let pc: Vec<(usize, (usize, usize))> = post.captures().map(|c| (c.index(), c.span())).collect();
        out.push(format!("postfix_captures={:?}", pc));
    }
    for p in paths {
        let c = CandidatePath::from(p.as_str());
        let m = g.matched(&c);
        let is = g.is_match(p.as_str());
        let base = c.as_ref().as_ptr() as usize;
        // (the offset of a capture inside the candidate is observed only where the slice aliases the
        // candidate; the API does not promise that it does)
        let plen = c.as_ref().len();
        let caps: Option<Vec<Option<(Option<usize>, String)>>> = m.as_ref().map(|m| {
            (0..=n + 2)
                .map(|i| {
                    m.get(i).map(|s| {
                        let off = (s.as_ptr() as usize).wrapping_sub(base);
                        (if off <= plen && off + s.len() <= plen { Some(off) } else { None }, s.to_string())
                    })
                })
                .collect()
        });
        let owned: Option<Vec<Option<String>>> =
            match guard(move || m.map(|m| m.into_owned()).map(|m| (0..=n + 2).map(|i| m.get(i).map(String::from)).collect::<Vec<_>>())) {
                Ok(o) => o,
                Err(msg) => {
                    out.push(format!("!owned-differs on {:?}: reading the owned matched text panicked ({})", p, msg));
                    None
                },
            };
        // owned matched text returns the same captures as the borrowed text it was made from
        let borrowed_texts: Option<Vec<Option<String>>> = caps.as_ref().map(|v| v.iter().map(|c| c.as_ref().map(|x| x.1.clone())).collect());
        if owned != borrowed_texts {
            out.push(format!("!owned-differs on {:?}: borrowed {:?}, owned {:?}", p, borrowed_texts, owned));
        }
        out.push(format!("{:?}: is={} matched={:?} owned={:?}", p, is, caps, owned));
    }
    out
}

fn observe_any(a: &Any<'_>, paths: &[String]) -> Vec<String> {
    let mut out = Vec::new();
    out.push(format!("depth={:?}", a.depth()));
    out.push(format!("text={:?}", a.text()));
    out.push(format!("root={:?}", a.has_root()));
    out.push(format!("exh={:?}", a.is_exhaustive()));
    for p in paths {
        let c = CandidatePath::from(p.as_str());
        let m = a.matched(&c);
        out.push(format!("{:?}: is={} complete={:?}", p, a.is_match(p.as_str()), m.map(|m| m.complete().to_string())));
    }
    out
}

thread_local! {
    static POSTFIX_SUBJECTS: std::cell::Cell<u64> = std::cell::Cell::new(0);
}

fn first_diff(a: &[String], b: &[String]) -> String {
    for (x, y) in a.iter().zip(b.iter()) {
        if x != y {
            return format!("`{}` vs `{}`", x, y);
        }
    }
    format!("lengths {} vs {}", a.len(), b.len())
}

impl Property for C19 {
    type Case = Case;
    fn id(&self) -> &'static str {
        "C19"
    }
    fn rule(&self) -> String {
        "rule-aware glob ASTs (all token kinds, multi-byte literals, flags) x conversion routes \
         (Display+new, Clone, into_owned, FromStr, TryFrom; any([..]) of text vs compiled vs \
         nested vs Result) x path pools x capture indices 0..=n+2; one evaluation = one (route, \
         path) comparison of the full observable behaviour; non-trivial = the expression has a \
         branch token nested >= 1 deep and the pool contains a match and a non-match; distinct by \
         (text, path)"
            .into()
    }
    fn assumptions(&self) -> Vec<String> {
        vec!["the partition-display route is judged by C08 (clause 5), not here".into()]
    }
    fn budget(&self, tier: Tier) -> (u32, u32) {
        match tier {
            Tier::Quick => (2500, 8),
            Tier::Thorough => (60000, 16),
        }
    }
    fn required_counters(&self) -> Vec<&'static str> {
        vec!["built", "nested_branch", "any_routes_compared", "matched_some", "postfix_subjects"]
    }
    fn directed(&self) -> Vec<Case> {
        // candidate paths longer than 64 KiB (owned captures keep offsets into their own copy)
        vec![
            Case { expr: vec![Tok::Zom { lazy: false }], others: vec![], paths: vec!["a".repeat(65_536), "a".repeat(70_000)] },
            Case { expr: vec![Tok::One, Tok::Zom { lazy: false }], others: vec![], paths: vec!["a".repeat(65_536)] },
            Case {
                expr: vec![Tok::Zom { lazy: false }, Tok::Sep, Tok::Zom { lazy: false }, Tok::lit(".rs")],
                others: vec![],
                paths: vec![format!("{}/{}.rs", "d".repeat(66_000), "f".repeat(10))],
            },
        ]
    }
    fn decode(&self, t: &mut Tape) -> Case {
        let cfg = GenCfg::default();
        let expr = gen_expr(t, &cfg);
        let n = t.weighted(&[45, 25, 12, 10, 8]);
        let mut c2 = GenCfg::default();
        c2.max_toks = 4;
        let others: Vec<Expr> = (0..n).map(|_| gen_expr(t, &c2)).collect();
        let mut all = vec![expr.clone()];
        all.extend(others.iter().cloned());
        let paths = pat_pool(t, &all, 1);
        Case { expr, others, paths }
    }
    fn shrink(&self, c: &Case) -> Vec<Case> {
        let mut out = Vec::new();
        if c.paths.len() > 1 {
            for p in &c.paths {
                out.push(Case { expr: c.expr.clone(), others: c.others.clone(), paths: vec![p.clone()] });
            }
        }
        for i in 0..c.others.len() {
            let mut o = c.others.clone();
            o.remove(i);
            out.push(Case { expr: c.expr.clone(), others: o, paths: c.paths.clone() });
        }
        for e in shrink_expr(&c.expr) {
            out.push(Case { expr: normalize(&e, true), others: c.others.clone(), paths: c.paths.clone() });
        }
        out
    }
    fn check(&self, case: &Case, st: &mut Stats) -> CheckResult {
        let text = render_text(&case.expr);
        let r = guard(|| -> Result<Option<String>, String> {
            let g0 = match Glob::new(&text) {
                Ok(g) => g,
                Err(_) => return Ok(None),
            };
            let o0 = observe_glob(&g0, &case.paths);
            if let Some(l) = o0.iter().find(|l| l.starts_with("!owned-differs")) {
                return Err(format!("`{}`: owned matched text differs from the borrowed matched text it was made from: {}", text, &l[1..]));
            }
            let shown = g0.to_string();
            if shown != text {
                return Err(format!("`{}` displays as `{}`", text, shown));
            }
            let routes: Vec<(&str, Result<Glob<'_>, wax::BuildError>)> = vec![
                ("Display+new", Glob::new(&shown)),
                ("clone", Ok(g0.clone())),
                ("into_owned", Ok(g0.clone().into_owned())),
                ("FromStr", text.parse::<Glob>()),
                ("TryFrom", Glob::try_from(text.as_str())),
                ("clone.into_owned.clone", Ok(g0.clone().into_owned().clone())),
            ];
            for (label, g) in routes {
                match g {
                    Err(e) => return Err(format!("`{}`: route {} fails to build: {}", text, label, e)),
                    Ok(g) => {
                        let o = observe_glob(&g, &case.paths);
                        if o != o0 {
                            return Err(format!("`{}`: route {} behaves differently: {}", text, label, first_diff(&o0, &o)));
                        }
                    },
                }
            }
            // a partition postfix is a glob too: displaying it and building the displayed text must
            // give the same glob.  (Not judged where the popped prefix carried a flag group or the
            // expression begins with a repetition: the open findings F-PART-FLAGS / F-PART-REPROOT
            // are C08's and C17's to report.)
            let plain = !text.contains("(?") && !matches!(case.expr.iter().find(|t| !t.is_flag()), Some(Tok::Rep { .. }));
            if plain {
                if let (_, Some(post)) = g0.clone().partition() {
                    let shown = post.to_string();
                    // the paths are judged relative to nothing in particular: any text will do
                    let op = observe_glob(&post, &case.paths);
                    match Glob::new(&shown) {
                        Err(e) => return Err(format!("`{}`: its partition postfix displays as `{}`, which does not build: {}", text, shown, e)),
                        Ok(g) => {
                            let o = observe_glob(&g, &case.paths);
                            if o != op {
                                return Err(format!("`{}`: its partition postfix `{}` behaves differently from the glob built from its display: {}", text, shown, first_diff(&op, &o)));
                            }
                        },
                    }
                    // re-owning applies to the results of operations too: the postfix of the owned
                    // glob, and the owned / cloned postfix, are the same pattern
                    let second: Vec<(&str, Option<Glob<'_>>)> = vec![
                        ("into_owned.partition", g0.clone().into_owned().partition().1),
                        ("partition.into_owned", Some(post.clone().into_owned())),
                        ("partition.clone", Some(post.clone())),
                        ("partition.partition", post.clone().partition().1),
                    ];
                    for (label, g) in second {
                        match g {
                            None => return Err(format!("`{}`: route {} has no postfix although partition gives `{}`", text, label, shown)),
                            Some(g) => {
                                let o = observe_glob(&g, &case.paths);
                                if o != op {
                                    return Err(format!("`{}`: route {} behaves differently from the partition postfix `{}`: {}", text, label, shown, first_diff(&op, &o)));
                                }
                            },
                        }
                    }
                    POSTFIX_SUBJECTS.with(|c| c.set(c.get() + 1));
                }
            }
            Ok(Some(o0.join("\n")))
        });
        let n_post = POSTFIX_SUBJECTS.with(|c| c.replace(0));
        if n_post > 0 {
            st.add("postfix_subjects", n_post);
        }
        let obs = match r {
            Ok(Ok(Some(o))) => o,
            Ok(Ok(None)) => {
                st.count("not_built");
                return Ok(());
            },
            Ok(Err(m)) => return Err(m),
            Err(_) => {
                st.panicked += 1;
                return Ok(());
            },
        };
        st.count("built");
        st.eval(6 * case.paths.len() as u64);
        if obs.contains("matched=Some") {
            st.count("matched_some");
        }
        // any routes
        let mut texts = vec![text.clone()];
        for o in &case.others {
            texts.push(render_text(o));
        }
        let r = guard(|| -> Result<bool, String> {
            let mut gs = Vec::new();
            for t in &texts {
                match Glob::new(t) {
                    Ok(g) => gs.push(g),
                    Err(_) => return Ok(false),
                }
            }
            let a_text = wax::any(texts.iter().map(|s| s.as_str()));
            let a_glob = wax::any(gs.iter().cloned());
            let a_res = wax::any(texts.iter().map(|s| Glob::new(s.as_str())));
            let a_owned = wax::any(gs.iter().cloned().map(Glob::into_owned));
            let a_nested = wax::any([wax::any(gs.iter().cloned())]);
            let a_split = {
                let first = wax::any([gs[0].clone()]);
                let rest = if gs.len() > 1 { wax::any(gs[1..].iter().cloned()) } else { wax::any([gs[0].clone()]) };
                wax::any([first, rest])
            };
            let all = [
                ("text", a_text),
                ("compiled", a_glob),
                ("result", a_res),
                ("owned", a_owned),
                ("nested", a_nested),
            ];
            let mut base: Option<Vec<String>> = None;
            for (label, a) in all.iter() {
                match a {
                    Err(e) => return Err(format!("any({:?}) via {} fails: {}", texts, label, e)),
                    Ok(a) => {
                        let o = observe_any(a, &case.paths);
                        let oc = observe_any(&a.clone(), &case.paths);
                        if o != oc {
                            return Err(format!("any({:?}) via {}: clone behaves differently: {}", texts, label, first_diff(&o, &oc)));
                        }
                        match &base {
                            None => base = Some(o),
                            Some(b) => {
                                if *b != o {
                                    return Err(format!(
                                        "any({:?}): route {} behaves differently from route text: {}",
                                        texts, label, first_diff(b, &o)
                                    ));
                                }
                            },
                        }
                    },
                }
            }
            // a combinator of the glob alone is the glob: same matches, same complete text, same
            // answers to the queries a combinator has
            {
                let alone = wax::any([gs[0].clone()]).map_err(|e| format!("any([`{}`]) fails: {}", texts[0], e))?;
                let g = &gs[0];
                let q = (format!("{:?}", g.depth()), format!("{:?}", g.text()), format!("{:?}", g.has_root()), format!("{:?}", g.is_exhaustive()));
                let qa = (format!("{:?}", alone.depth()), format!("{:?}", alone.text()), format!("{:?}", alone.has_root()), format!("{:?}", alone.is_exhaustive()));
                if q != qa {
                    return Err(format!("any([`{}`]) answers the queries differently from the glob itself: {:?} vs {:?}", texts[0], qa, q));
                }
                for p in &case.paths {
                    let c = CandidatePath::from(p.as_str());
                    let (mg, ma) = (g.matched(&c).map(|m| m.complete().to_string()), alone.matched(&c).map(|m| m.complete().to_string()));
                    if g.is_match(p.as_str()) != alone.is_match(p.as_str()) || mg != ma {
                        return Err(format!("any([`{}`]) differs from the glob itself on {:?}: is_match {} vs {}", texts[0], p, alone.is_match(p.as_str()), g.is_match(p.as_str())));
                    }
                }
            }
            // the split-nested route may group differently: only matching must agree
            if let (Ok(s), Some(b)) = (a_split.as_ref(), &base) {
                for (i, p) in case.paths.iter().enumerate() {
                    let expect = b[4 + i].contains("is=true");
                    if s.is_match(p.as_str()) != expect {
                        return Err(format!("any({:?}) nested as [[first],[rest]]: is_match({:?}) differs", texts, p));
                    }
                }
            }
            Ok(true)
        });
        match r {
            Ok(Ok(true)) => {
                st.count("any_routes_compared");
                st.eval(5 * case.paths.len() as u64);
            },
            Ok(Ok(false)) => {},
            Ok(Err(m)) => return Err(m),
            Err(_) => {
                st.panicked += 1;
            },
        }
        let nested = max_depth(&case.expr) >= 1;
        if nested {
            st.count("nested_branch");
        }
        if nested && obs.contains("is=true") && obs.contains("is=false") {
            for p in &case.paths {
                st.nontrivial(&(text.as_str(), p.as_str()), || json!({"glob": text, "path": p, "routes": 6}));
            }
        }
        Ok(())
    }
}
