//! Combinator stacks over walks: run-time (apply a generated sequence of `not` / `filter_entry`
//! layers to a wax walk, logging every call of every user filter) and model (pruned-tree model
//! with the verdict lattice keep < File < Tree).  Shared by C13, C16 and C20.

use crate::ast::*;
use crate::fsmodel::*;
use crate::gen::*;
use crate::props::c02::{full_glob, Shape};
use crate::props::c03::{collect, Item};
use crate::props::fscommon::*;
use serde::{Deserialize, Serialize};
use std::cell::RefCell;
use std::collections::{BTreeMap, BTreeSet};
use std::path::Path;
use std::rc::Rc;
use wax::walk::{Entry, EntryResidue, FileIterator, PathExt, WalkBehavior};
use wax::{BuildError, Glob, Program};

#[derive(Serialize, Deserialize, Clone, Copy, Debug, PartialEq, Eq, PartialOrd, Ord)]
pub enum Verdict {
    Keep,
    File,
    Tree,
}

#[derive(Serialize, Deserialize, Clone, Debug, PartialEq)]
pub enum Layer {
    /// `not(expression)`
    Not(Expr),
    /// `not(any([expressions]))` — may be partitioned into an exhaustive and a non-exhaustive part
    NotAny(Vec<Expr>),
    /// `filter_entry(|e| table.get(relative path))`; an empty table is a pure probe
    Table(Vec<(String, Verdict)>),
}

#[derive(Serialize, Deserialize, Clone, Debug)]
pub enum Under {
    Path,
    Glob { shape: Shape, glob: Expr },
}

pub type Log = Rc<RefCell<Vec<String>>>;

pub struct RunOut {
    pub items: Vec<Item>,
    pub capped: bool,
    /// per layer (same indices as the stack, plus the terminal probe last): relative paths the
    /// user filter was called with, in call order; `not` layers cannot be observed (empty)
    pub logs: Vec<Vec<String>>,
}

fn table_filter(table: &[(String, Verdict)], log: Log) -> impl FnMut(&dyn Entry) -> Option<EntryResidue> + 'static {
    let map: BTreeMap<String, Verdict> = table.iter().cloned().collect();
    move |e: &dyn Entry| {
        let rel = e.root_relative_paths().1.to_string_lossy().to_string();
        log.borrow_mut().push(rel.clone());
        match map.get(&rel) {
            Some(Verdict::File) => Some(EntryResidue::File),
            Some(Verdict::Tree) => Some(EntryResidue::Tree),
            _ => None,
        }
    }
}

struct Ctx {
    logs: Vec<Log>,
    cap: usize,
}

fn terminal<I>(walk: I, ctx: &Ctx, idx: usize) -> (Vec<Item>, bool)
where
    I: FileIterator + 'static,
    I::Entry: 'static,
    I::Residue: 'static,
{
    let log = ctx.logs[idx].clone();
    collect(walk.filter_entry(table_filter(&[], log)), ctx.cap)
}

fn apply_end<I>(walk: I, _layers: &[Layer], ctx: &Ctx, _idx: usize) -> Result<(Vec<Item>, bool), BuildError>
where
    I: FileIterator + 'static,
    I::Entry: 'static,
    I::Residue: 'static,
{
    Ok(terminal(walk, ctx, ctx.logs.len() - 1))
}

macro_rules! gen_apply {
    ($name:ident, $next:ident) => {
        fn $name<I>(walk: I, layers: &[Layer], ctx: &Ctx, idx: usize) -> Result<(Vec<Item>, bool), BuildError>
        where
            I: FileIterator + 'static,
            I::Entry: 'static,
            I::Residue: 'static,
        {
            match layers.split_first() {
                None => Ok(terminal(walk, ctx, ctx.logs.len() - 1)),
                Some((Layer::Not(e), rest)) => {
                    let text = render_text(e);
                    $next(walk.not(Glob::new(&text)?.into_owned())?, rest, ctx, idx + 1)
                },
                Some((Layer::NotAny(es), rest)) => {
                    let texts: Vec<String> = es.iter().map(render_text).collect();
                    let mut gs = Vec::new();
                    for t in &texts {
                        gs.push(Glob::new(t)?.into_owned());
                    }
                    $next(walk.not(wax::any(gs))?, rest, ctx, idx + 1)
                },
                Some((Layer::Table(t), rest)) => {
                    let log = ctx.logs[idx].clone();
                    $next(walk.filter_entry(table_filter(t, log)), rest, ctx, idx + 1)
                },
            }
        }
    };
}

gen_apply!(apply5, apply_end);
gen_apply!(apply4, apply5);
gen_apply!(apply3, apply4);
gen_apply!(apply2, apply3);
gen_apply!(apply1, apply2);
gen_apply!(apply0, apply1);

pub const MAX_LAYERS: usize = 5;

/// Run a stack over a walk.  `Ok(None)`: the underlying glob does not build / is rooted.
pub fn run_stack(
    base_given: &Path,
    under: &Under,
    layers: &[Layer],
    behavior: WalkBehavior,
    cap: usize,
) -> Result<Option<RunOut>, BuildError> {
    let layers = &layers[..layers.len().min(MAX_LAYERS)];
    let logs: Vec<Log> = (0..=layers.len()).map(|_| Rc::new(RefCell::new(Vec::new()))).collect();
    let ctx = Ctx { logs, cap };
    let (items, capped) = match under {
        Under::Path => apply0(base_given.walk_with_behavior(behavior), layers, &ctx, 0)?,
        Under::Glob { shape, glob } => {
            let expr = full_glob(shape, glob, "");
            if starts_rooting_expr(&strip_flags(&expr)) || has_sep_class(&expr) {
                return Ok(None);
            }
            let g = match Glob::new(&render_text(&expr)) {
                Ok(g) => g.into_owned(),
                Err(_) => return Ok(None),
            };
            if prefix_dot_components(&g) > 0 {
                return Ok(None);
            }
            apply0(g.walk_with_behavior(base_given.to_path_buf(), behavior), layers, &ctx, 0)?
        },
    };
    let logs = ctx.logs.iter().map(|l| l.borrow().clone()).collect();
    Ok(Some(RunOut { items, capped, logs }))
}

// ------------------------------------------------------------------------------------------------
// model

pub struct Model {
    /// every entry that is fed to the stack (no proper ancestor discarded as a tree), keyed by
    /// root-relative path; value: is_dir
    pub fed: BTreeMap<String, bool>,
    /// fed entries that every layer keeps
    pub yielded: BTreeSet<String>,
    /// directories discarded as trees
    pub discarded: BTreeSet<String>,
    /// directories that receive a tree verdict from >= 2 layers
    pub double_tree: usize,
    /// tree verdicts on non-directories
    pub tree_on_file: usize,
    pub pruned_by_glob: usize,
}

pub struct LayerRt {
    pub layer: Layer,
    pub exhaustive: Option<regex::Regex>,
    pub nonexhaustive: Option<regex::Regex>,
    /// the alternatives of a negation (members of `any`, branches of an alternation that is the
    /// whole pattern or a whole branch, recursively) that report `is_exhaustive() == Always` on
    /// their own: "an exhaustive negation" of C13's first sentence, independent of how wax splits
    /// and partitions the pattern.  A directory one of them matches must be discarded as a tree.
    pub exhaustive_alternatives: Vec<Glob<'static>>,
    /// every alternative (and every whole member) that reports `Always` on its own — used only
    /// to *excuse* tree verdicts in `unsound_tree_verdict`
    pub always_alternatives: Vec<Glob<'static>>,
}

fn always_alternatives(exprs: &[Expr]) -> Vec<Glob<'static>> {
    let mut out = Vec::new();
    for e in exprs {
        let mut alts = negation_alternatives(e);
        alts.push(e.clone());
        for a in alts {
            if let Ok(g) = Glob::new(&render_text(&a)) {
                if g.is_exhaustive().is_always() {
                    out.push(g.into_owned());
                }
            }
        }
    }
    out
}

/// alternatives of a negation expression: an expression that is a single alternation (flags
/// aside) stands for its branches, recursively
pub fn negation_alternatives(e: &Expr) -> Vec<Expr> {
    let toks: Vec<&Tok> = e.iter().filter(|t| !t.is_flag()).collect();
    if let [Tok::Alt(bs)] = toks.as_slice() {
        return bs.iter().flat_map(negation_alternatives).collect();
    }
    vec![e.clone()]
}

/// The shapes the documentation of `not` itself uses for "exhaustive" (`secret/**`,
/// `**/private/**`): literal components, optionally after a leading tree wildcard, closed by a
/// trailing tree wildcard.  For these the verdict does not rest on wax's own `is_exhaustive`.
pub fn canonical_exhaustive(e: &Expr) -> bool {
    let toks: Vec<&Tok> = e.iter().filter(|t| !t.is_flag()).collect();
    if toks.len() < 2 || !matches!(toks[toks.len() - 1], Tok::Tree { lead: true, trail: false }) {
        return false;
    }
    toks[..toks.len() - 1].iter().enumerate().all(|(i, t)| match t {
        Tok::Lit { .. } | Tok::Sep => true,
        Tok::Tree { lead: false, .. } => i == 0,
        _ => false,
    }) && toks[..toks.len() - 1].iter().any(|t| matches!(t, Tok::Lit { .. }))
}

fn exhaustive_alternatives(exprs: &[Expr]) -> Vec<Glob<'static>> {
    let mut out = Vec::new();
    for e in exprs {
        let alts = negation_alternatives(e);
        let whole = alts.len() < 2;
        for a in alts {
            if let Ok(g) = Glob::new(&render_text(&a)) {
                // a pattern that is one alternative: wax's own partition decides (hook), except
                // for the canonical shapes
                if canonical_exhaustive(&a) || (!whole && g.is_exhaustive().is_always()) {
                    out.push(g.into_owned());
                }
            }
        }
    }
    out
}

/// `strict`: also demand tree discards from the harness's own reading of "an exhaustive negation"
/// (C13); otherwise wax's own partition alone decides (C16, C20: they are about other things)
pub fn prepare_layers(layers: &[Layer], strict: bool) -> Result<Vec<LayerRt>, BuildError> {
    let mut out = Vec::new();
    for l in layers.iter().take(MAX_LAYERS) {
        match l {
            Layer::Not(e) => {
                let text = render_text(e);
                let (ex, ne) = wax::walk::verif_negation_patterns(text.as_str())?;
                out.push(LayerRt {
                    layer: l.clone(),
                    exhaustive: ex.and_then(|p| regex::Regex::new(&p).ok()),
                    nonexhaustive: ne.and_then(|p| regex::Regex::new(&p).ok()),
                    exhaustive_alternatives: if strict { exhaustive_alternatives(std::slice::from_ref(e)) } else { Vec::new() },
                    always_alternatives: always_alternatives(std::slice::from_ref(e)),
                });
            },
            Layer::NotAny(es) => {
                let texts: Vec<String> = es.iter().map(render_text).collect();
                let (ex, ne) = wax::walk::verif_negation_patterns(wax::any(texts.iter().map(|s| s.as_str())))?;
                let mut alts = Vec::new();
                if strict {
                    alts = exhaustive_alternatives(es);
                    // the members themselves are alternatives too
                    for (e, t) in es.iter().zip(texts.iter()) {
                        if let Ok(g) = Glob::new(t) {
                            if g.is_exhaustive().is_always() || canonical_exhaustive(e) {
                                alts.push(g.into_owned());
                            }
                        }
                    }
                }
                out.push(LayerRt {
                    layer: l.clone(),
                    exhaustive: ex.and_then(|p| regex::Regex::new(&p).ok()),
                    nonexhaustive: ne.and_then(|p| regex::Regex::new(&p).ok()),
                    exhaustive_alternatives: alts,
                    always_alternatives: always_alternatives(es),
                });
            },
            Layer::Table(_) => out.push(LayerRt { layer: l.clone(), exhaustive: None, nonexhaustive: None, exhaustive_alternatives: Vec::new(), always_alternatives: Vec::new() }),
        }
    }
    Ok(out)
}

pub fn layer_verdict(l: &LayerRt, rel: &str) -> Verdict {
    match &l.layer {
        Layer::Not(_) | Layer::NotAny(_) => {
            if l.exhaustive.as_ref().map_or(false, |r| r.is_match(rel)) || l.exhaustive_alternatives.iter().any(|g| g.is_match(rel)) {
                Verdict::Tree
            }
            else if l.nonexhaustive.as_ref().map_or(false, |r| r.is_match(rel)) {
                Verdict::File
            }
            else {
                Verdict::Keep
            }
        },
        Layer::Table(t) => t.iter().find(|(p, _)| p == rel).map_or(Verdict::Keep, |x| x.1),
    }
}

/// C03 / C13 / C16: a negation discards a directory *as a tree* only if everything beneath it
/// matches the negation too.  Judged on the entries that exist, with the negation's own compiled
/// programs (their union is the whole pattern, however wax partitions it).  Where an alternative
/// that reports `is_exhaustive() == Always` on its own matches the directory, the verdict is taken
/// as it is: whether `Always` is sound is C09's question (open findings F-EXH-*).
pub fn unsound_tree_verdict(entries: &[(String, bool)], layers: &[LayerRt]) -> Option<String> {
    for l in layers {
        if !matches!(l.layer, Layer::Not(_) | Layer::NotAny(_)) {
            continue;
        }
        let matches = |rel: &str| {
            l.exhaustive.as_ref().map_or(false, |r| r.is_match(rel)) || l.nonexhaustive.as_ref().map_or(false, |r| r.is_match(rel))
        };
        for (d, is_dir) in entries {
            if !*is_dir || !l.exhaustive.as_ref().map_or(false, |r| r.is_match(d)) {
                continue;
            }
            if l.always_alternatives.iter().chain(l.exhaustive_alternatives.iter()).any(|g| g.is_match(d.as_str())) {
                continue;
            }
            for (e, _) in entries {
                let beneath = if d.is_empty() { !e.is_empty() } else { e.starts_with(&format!("{}/", d)) };
                if beneath && !matches(e) {
                    return Some(format!(
                        "the negation {:?} discards the directory {:?} as a tree although {:?} beneath it does not match the negation (and no alternative that is exhaustive on its own matches the directory)",
                        l.layer, d, e
                    ));
                }
            }
        }
    }
    None
}

pub struct GlobRt {
    pub glob: Glob<'static>,
    pub programs: Vec<regex::Regex>,
    /// invariant prefix as text ("" when none)
    pub prefix: String,
    /// the leading components of the expression that are plain: no tree wildcard and no branch
    /// that spans a separator (flags stripped) — the components for which "a glob's component
    /// cannot match a directory" has an unambiguous meaning
    pub plain_components: Vec<Expr>,
}

/// leading plain components of an expression (see `GlobRt::plain_components`)
pub fn plain_components(e: &Expr) -> Vec<Expr> {
    let e = strip_flags(e);
    let mut out: Vec<Expr> = Vec::new();
    let mut cur: Expr = Vec::new();
    for t in e.iter() {
        match t {
            Tok::Sep => out.push(std::mem::take(&mut cur)),
            Tok::Tree { .. } => return out,
            t if t.is_branch() && any_tok(&vec![t.clone()], &|x, _| matches!(x, Tok::Sep | Tok::Tree { .. })) => return out,
            t => cur.push(t.clone()),
        }
    }
    out.push(cur);
    out
}

/// C13, first sentence: a directory whose name the glob's component at that position cannot match
/// is discarded as a tree.  `Some(j)`: component `j` (plain, by the documented semantics) rejects
/// the directory's own name.
pub fn component_cannot_match(g: &GlobRt, rel: &str) -> Option<usize> {
    let comps: Vec<&str> = rel.split('/').filter(|c| !c.is_empty()).collect();
    let j = comps.len().checked_sub(1)?;
    let ce = g.plain_components.get(j)?;
    if ce.is_empty() {
        return None;
    }
    if crate::refmatch::verdict(ce, comps[j]) == crate::refmatch::Verdict::MustReject {
        Some(j)
    }
    else {
        None
    }
}

pub fn prepare_glob(under: &Under) -> Option<Option<GlobRt>> {
    match under {
        Under::Path => Some(None),
        Under::Glob { shape, glob } => {
            let expr = full_glob(shape, glob, "");
            if starts_rooting_expr(&strip_flags(&expr)) || has_sep_class(&expr) {
                return None;
            }
            let g = Glob::new(&render_text(&expr)).ok()?.into_owned();
            if prefix_dot_components(&g) > 0 {
                // `.` / `..` in the prefix (also spelled `[.]`): C02's business
                return None;
            }
            let programs = g.verif_walk_component_patterns().iter().filter_map(|p| regex::Regex::new(p).ok()).collect();
            let (pre, _) = g.clone().partition();
            let prefix = pre.to_string_lossy().trim_end_matches('/').to_string();
            let plain_components = plain_components(&expr);
            Some(Some(GlobRt { glob: g, programs, prefix, plain_components }))
        },
    }
}

pub fn glob_verdict(g: &GlobRt, rel: &str) -> Verdict {
    let comps: Vec<&str> = rel.split('/').filter(|c| !c.is_empty()).collect();
    if let Some(k) = comps.len().checked_sub(1) {
        // the walker compares the entry's last component (earlier ones passed when the ancestors
        // were visited) — and, for the walk root, all prefix components
        let from = if comps.len() <= g.prefix.split('/').filter(|c| !c.is_empty()).count() { 0 } else { k };
        for i in from..=k {
            if i < g.programs.len() && !g.programs[i].is_match(comps[i]) {
                return Verdict::Tree;
            }
        }
    }
    // an entry with fewer components than there are component programs cannot be a complete
    // match for the walker (it keeps descending): node residue — also for the walk root under
    // `*`, although `*` matches the empty path
    if comps.len() < g.programs.len() {
        return Verdict::File;
    }
    if g.glob.is_match(rel) {
        Verdict::Keep
    }
    else {
        Verdict::File
    }
}

/// What a bare glob walk (no layers, one pass-through probe) was observed to do.  The stack
/// model takes the glob's own pruning from here, so it does not depend on *how* the walker decides
/// which directories cannot contain a match — only on that decision being sound (checked by
/// `validate_observed`) and repeatable.
pub struct Observed {
    /// entries the glob walk feeds downstream (filtrate and residue)
    pub fed: BTreeSet<String>,
    /// entries the glob walk yields
    pub yielded: BTreeSet<String>,
    /// directories whose whole tree the glob walk was observed to skip
    pub pruned: BTreeSet<String>,
}

fn is_beneath(dir: &str, rel: &str) -> bool {
    if dir.is_empty() {
        !rel.is_empty()
    }
    else {
        rel.starts_with(&format!("{}/", dir))
    }
}

/// Derive the observed pruning and validate it against the reference entries:
/// every entry that is not fed must lie beneath a fed directory *all* of whose descendants are
/// absent (a pruned tree), and no pruned tree may contain a path the glob matches.
pub fn observe(entries: &[(String, bool)], glob: &GlobRt, fed: BTreeSet<String>, yielded: BTreeSet<String>, enforce_component_discard: bool) -> Result<Observed, String> {
    let mut pruned = BTreeSet::new();
    for (rel, is_dir) in entries {
        if *is_dir && fed.contains(rel) {
            let mut any = false;
            let mut any_fed = false;
            for (d, _) in entries {
                if is_beneath(rel, d) {
                    any = true;
                    if fed.contains(d) {
                        any_fed = true;
                    }
                }
            }
            if any && !any_fed {
                pruned.insert(rel.clone());
            }
        }
    }
    for (rel, _) in entries {
        if !fed.contains(rel) && !pruned.iter().any(|d| is_beneath(d, rel)) {
            return Err(format!(
                "glob `{}`: the entry {:?} is not fed downstream although it is not beneath a directory whose whole tree is skipped (skipped trees: {:?})",
                glob.glob, rel, pruned
            ));
        }
        if let Some(d) = pruned.iter().find(|d| is_beneath(d, rel)) {
            if glob.glob.is_match(rel.as_str()) {
                return Err(format!(
                    "glob `{}`: the tree of {:?} is skipped although it contains the matching path {:?}",
                    glob.glob, d, rel
                ));
            }
        }
    }
    // "because a glob's component cannot match it": a fed directory whose own name is rejected by
    // the plain component at its position must be discarded as a tree — nothing beneath it is fed
    // (enforced by C13 only: it is a clause of C13; C16 and C20 take the pruning as observed)
    for (rel, is_dir) in entries {
        if enforce_component_discard && *is_dir && fed.contains(rel) {
            if let Some(j) = component_cannot_match(glob, rel) {
                if let Some((d, _)) = entries.iter().find(|(d, _)| is_beneath(rel, d) && fed.contains(d)) {
                    return Err(format!(
                        "glob `{}`: component {} cannot match the directory {:?}, yet it is not discarded as a tree: {:?} beneath it is produced downstream",
                        glob.glob, j, rel, d
                    ));
                }
            }
        }
    }
    for f in &fed {
        if !entries.iter().any(|(r, _)| r == f) {
            return Err(format!("glob `{}`: feeds {:?}, which the reference traversal does not know", glob.glob, f));
        }
    }
    Ok(Observed { fed, yielded, pruned })
}

/// `entries`: every entry of the underlying tree walk as (root-relative path, is_dir), parents
/// before children.
pub fn model(entries: &[(String, bool)], glob: Option<&GlobRt>, layers: &[LayerRt]) -> Model {
    model_with(entries, glob, None, layers)
}

pub fn model_with(entries: &[(String, bool)], glob: Option<&GlobRt>, observed: Option<&Observed>, layers: &[LayerRt]) -> Model {
    let mut m = Model {
        fed: BTreeMap::new(),
        yielded: BTreeSet::new(),
        discarded: BTreeSet::new(),
        double_tree: 0,
        tree_on_file: 0,
        pruned_by_glob: 0,
    };
    for (rel, is_dir) in entries {
        // beneath a discarded tree?
        let beneath = m.discarded.iter().any(|d| {
            if d.is_empty() {
                !rel.is_empty()
            }
            else {
                rel.starts_with(&format!("{}/", d))
            }
        });
        if beneath {
            continue;
        }
        m.fed.insert(rel.clone(), *is_dir);
        let mut keep = true;
        let mut trees = 0;
        if let Some(o) = observed {
            // the glob's part is taken from the observed bare walk
            if !o.yielded.contains(rel) {
                keep = false;
            }
            if o.pruned.contains(rel) && *is_dir {
                trees += 1;
                m.pruned_by_glob += 1;
            }
        }
        else if let Some(g) = glob {
            match glob_verdict(g, rel) {
                Verdict::Keep => {},
                Verdict::File => keep = false,
                Verdict::Tree => {
                    keep = false;
                    if *is_dir {
                        trees += 1;
                        m.pruned_by_glob += 1;
                    }
                },
            }
        }
        for l in layers {
            match layer_verdict(l, rel) {
                Verdict::Keep => {},
                Verdict::File => keep = false,
                Verdict::Tree => {
                    keep = false;
                    if *is_dir {
                        trees += 1;
                    }
                    else {
                        m.tree_on_file += 1;
                    }
                },
            }
        }
        if trees > 0 {
            m.discarded.insert(rel.clone());
            if trees > 1 {
                m.double_tree += 1;
            }
        }
        if keep {
            m.yielded.insert(rel.clone());
        }
    }
    m
}

/// entries of the underlying tree walk, from the independent reference traversal
pub fn underlying_entries(base_abs: &Path, glob: Option<&GlobRt>, follow: bool, max_depth: Option<usize>) -> Vec<(String, bool)> {
    let (start, prefix) = match glob {
        Some(g) if !g.prefix.is_empty() => (base_abs.join(&g.prefix), g.prefix.clone()),
        _ => (base_abs.to_path_buf(), String::new()),
    };
    let mut out = Vec::new();
    for it in ref_walk(&start, follow) {
        if let RefItem::Entry { rel, is_dir, depth, .. } = it {
            if max_depth.map_or(false, |m| depth > m) {
                continue;
            }
            let r = if prefix.is_empty() {
                rel
            }
            else if rel.is_empty() {
                prefix.clone()
            }
            else {
                format!("{}/{}", prefix, rel)
            };
            out.push((r, is_dir));
        }
    }
    out
}

// ------------------------------------------------------------------------------------------------
// generators

pub fn gen_table(t: &mut Tape, tree: &TreeSpec, prefix_root: bool) -> Vec<(String, Verdict)> {
    let mut cands: Vec<String> = tree.nodes.iter().map(|n| n.path.clone()).collect();
    if prefix_root {
        cands.push(String::new());
    }
    let n = t.weighted(&[10, 40, 30, 20]);
    let mut out = Vec::new();
    if cands.is_empty() {
        return out;
    }
    for _ in 0..n {
        let p = t.pick(&cands);
        let v = if t.chance(150) { Verdict::Tree } else { Verdict::File };
        if !out.iter().any(|(q, _)| *q == p) {
            out.push((p, v));
        }
    }
    out
}

pub fn gen_not_expr(t: &mut Tape, tree: &TreeSpec) -> Expr {
    // negations that hit existing entries: `name/**`, `**/name/**`, `**/name`, `*/name`, `**/*.x`
    let names = tree_names(tree);
    let paths: Vec<String> = tree.nodes.iter().map(|n| n.path.clone()).collect();
    let tree_end = Tok::Tree { lead: true, trail: false };
    let e: Expr = match t.below(10) {
        9 => {
            // exhaustive only *sometimes*: a mixed alternation inside a concatenation,
            // `p/{x/**,name}` or `**/{x/**,name}` with `p/name` an existing directory — the
            // directory matches through the non-exhaustive branch and must not be discarded as a
            // tree
            let dirs: Vec<String> = tree.nodes.iter().filter(|n| n.kind == Kind::Dir && !n.path.contains('\\') && !n.path.contains(crate::fsmodel::RAW)).map(|n| n.path.clone()).collect();
            if dirs.is_empty() {
                vec![Tok::lit("a"), Tok::Sep, Tok::Alt(vec![vec![Tok::lit("b"), tree_end.clone()], vec![Tok::lit("c")]])]
            }
            else {
                let d = t.pick(&dirs);
                let (parent, name) = match d.rsplit_once('/') {
                    Some((p, n)) => (p.to_string(), n.to_string()),
                    None => (String::new(), d.clone()),
                };
                let mut e = if t.chance(100) || parent.is_empty() {
                    vec![Tok::Tree { lead: false, trail: true }]
                }
                else {
                    literal_prefix(&parent, true)
                };
                let ex = vec![Tok::lit(&t.pick(&names)), tree_end.clone()];
                let ne = vec![Tok::lit(&name)];
                e.push(if t.chance(128) { Tok::Alt(vec![ex, ne]) } else { Tok::Alt(vec![ne, ex]) });
                e
            }
        },
        8 => {
            // an alternation nested as a whole branch of an alternation, mixing an exhaustive and a
            // non-exhaustive branch: `{x,{d/**,*.rs}}` (either order)
            let dirs: Vec<String> = tree.nodes.iter().filter(|n| n.kind == Kind::Dir).map(|n| n.path.clone()).collect();
            let mut ex = if dirs.is_empty() { vec![Tok::lit("a")] } else { literal_prefix(&t.pick(&dirs), false) };
            ex.push(tree_end.clone());
            let ne = match t.below(3) {
                0 => vec![Tok::Zom { lazy: false }, Tok::lit(".rs")],
                1 => vec![Tok::Tree { lead: false, trail: true }, Tok::lit(&t.pick(&names))],
                _ => vec![Tok::lit(&t.pick(&names))],
            };
            let inner = if t.chance(128) { Tok::Alt(vec![ex, ne]) } else { Tok::Alt(vec![ne, ex]) };
            let other = vec![Tok::lit(&t.pick(&names))];
            if t.chance(128) {
                vec![Tok::Alt(vec![other, vec![inner]])]
            }
            else {
                vec![Tok::Alt(vec![vec![inner], other])]
            }
        },
        0 | 1 => {
            if paths.is_empty() {
                vec![Tok::lit("a"), tree_end]
            }
            else {
                let mut e = literal_prefix(&t.pick(&paths), false);
                e.push(tree_end);
                e
            }
        },
        2 => vec![Tok::Tree { lead: false, trail: true }, Tok::lit(&t.pick(&names)), tree_end],
        3 => vec![Tok::Tree { lead: false, trail: true }, Tok::lit(&t.pick(&names))],
        4 => {
            if paths.is_empty() {
                vec![Tok::lit("a")]
            }
            else {
                literal_prefix(&t.pick(&paths), false)
            }
        },
        5 => vec![Tok::Zom { lazy: false }, Tok::Sep, Tok::lit(&t.pick(&names))],
        6 => vec![Tok::Tree { lead: false, trail: true }, Tok::Zom { lazy: false }, Tok::lit(".rs")],
        _ => gen_expr(t, &fs_glob_cfg(tree)),
    };
    merge_lits(&normalize(&e, true))
}

/// Table keys are generated relative to the tree root; the filters see paths relative to the walk
/// base.  Re-spell the keys for a base inside (`Sub`) or above (`Parent`) the tree, so that the
/// verdicts actually fire there.
pub fn rebase_layers(layers: Vec<Layer>, base: &Base) -> Vec<Layer> {
    layers
        .into_iter()
        .map(|l| match l {
            Layer::Table(t) => Layer::Table(
                t.into_iter()
                    .filter_map(|(k, v)| match base {
                        Base::Sub(d) => {
                            if k == *d {
                                Some((String::new(), v))
                            }
                            else {
                                k.strip_prefix(&format!("{}/", d)).map(|r| (r.to_string(), v))
                            }
                        },
                        Base::Parent => Some((if k.is_empty() { "t".to_string() } else { format!("t/{}", k) }, v)),
                        _ => Some((k, v)),
                    })
                    .collect(),
            ),
            other => other,
        })
        .collect()
}

pub fn gen_layers(t: &mut Tape, tree: &TreeSpec, min: usize) -> Vec<Layer> {
    let n = (min + t.weighted(&[25, 35, 25, 15])).min(MAX_LAYERS);
    (0..n)
        .map(|_| {
            if t.chance(40) {
                // a negation that may be partitioned: several alternatives, often an exhaustive and
                // a non-exhaustive one that match the same directory
                let n = 2 + t.below(2);
                let mut es: Vec<Expr> = (0..n).map(|_| gen_not_expr(t, tree)).collect();
                if t.chance(160) && !tree.nodes.is_empty() {
                    let paths: Vec<String> = tree.nodes.iter().filter(|n| matches!(n.kind, Kind::Dir)).map(|n| n.path.clone()).collect();
                    if !paths.is_empty() {
                        let d = t.pick(&paths);
                        let name = d.rsplit('/').next().unwrap_or("").to_string();
                        let mut ex = literal_prefix(&d, false);
                        ex.push(Tok::Tree { lead: true, trail: false });
                        let ne = match t.below(3) {
                            0 => literal_prefix(&d, false),
                            1 => vec![Tok::Tree { lead: false, trail: true }, Tok::lit(&name)],
                            _ => vec![Tok::Tree { lead: false, trail: true }, Tok::lit(&name), Tok::Zom { lazy: false }],
                        };
                        es[0] = merge_lits(&normalize(&ex, true));
                        es[1] = merge_lits(&normalize(&ne, true));
                        if t.chance(128) {
                            es.swap(0, 1);
                        }
                    }
                }
                Layer::NotAny(es)
            }
            else if t.chance(110) {
                Layer::Not(gen_not_expr(t, tree))
            }
            else {
                Layer::Table(gen_table(t, tree, true))
            }
        })
        .collect()
}
