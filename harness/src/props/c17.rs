//! C17 — Spans reported for errors and captures index the expression safely.

use crate::ast::*;
use crate::engine::*;
use crate::gen::*;
use crate::props::common::*;
use serde::{Deserialize, Serialize};
use serde_json::json;
use wax::Glob;

pub struct C17;

#[derive(Serialize, Deserialize, Clone, Debug)]
pub enum Case {
    /// a string handed to Glob::new as is (expected to fail more often than not)
    Raw { text: String },
    /// an AST whose rendering is handed to Glob::new; capture spans are compared with the
    /// renderer's token spans (also after partitioning)
    Ast { expr: Expr },
}

const MB: &[char] = &['é', '字', '😀', 'a', 'ß', '\u{301}'];
const INS: &[&str] = &["(", ")", "\\", ",", ":", "{", "}", "<", ">", "[", "]", "*", "$", "?", "(?", "(?i", "**", "-", "!", "/", "<a:", "<a:1,", "[a-", "\\é", "(?x)"];

fn mb_cfg() -> GenCfg {
    let mut c = GenCfg::default();
    c.noise_flags = 30;
    c
}

/// replace literal characters by multi-byte ones so that they sit next to every token
fn multibyte(e: &Expr, t: &mut Tape) -> Expr {
    e.iter()
        .map(|tok| match tok {
            Tok::Lit { text, ci } => {
                let s: String = text.chars().map(|c| if t.chance(150) { t.pick(MB) } else { c }).collect();
                Tok::Lit { text: s, ci: *ci }
            },
            Tok::Alt(bs) => Tok::Alt(bs.iter().map(|b| multibyte(b, t)).collect()),
            Tok::Rep { body, lo, hi, spell } => Tok::Rep { body: multibyte(body, t), lo: *lo, hi: *hi, spell: *spell },
            Tok::Class { neg, items } => Tok::Class {
                neg: *neg,
                items: items.iter().map(|i| if t.chance(80) { Item::Ch(t.pick(MB)) } else { i.clone() }).collect(),
            },
            x => x.clone(),
        })
        .collect()
}

fn mutate_text(s: &str, t: &mut Tape) -> String {
    let mut cs: Vec<char> = s.chars().collect();
    let n = 1 + t.below(2);
    for _ in 0..n {
        let len = cs.len();
        match t.below(8) {
            0 if len > 0 => {
                // delete a delimiter (prefer closing ones)
                let idx: Vec<usize> = (0..len).filter(|i| matches!(cs[*i], '}' | '>' | ']' | ')' | '{' | '<' | '[' | ':' | ',')).collect();
                if !idx.is_empty() {
                    cs.remove(t.pick(&idx));
                }
                else {
                    cs.remove(t.below(len));
                }
            },
            1 => {
                // insert something directly before / after a multi-byte character
                let idx: Vec<usize> = (0..len).filter(|i| cs[*i].len_utf8() > 1).collect();
                let at = if !idx.is_empty() { t.pick(&idx) + t.below(2) } else { t.below(len + 1) };
                let ins = t.pick(INS);
                for (k, c) in ins.chars().enumerate() {
                    cs.insert((at + k).min(cs.len()), c);
                }
            },
            2 if len > 0 => {
                cs.truncate(t.below(len));
            },
            3 => {
                let ins = t.pick(INS);
                cs.extend(ins.chars());
            },
            4 if len > 0 => {
                let i = t.below(len);
                let c = cs[i];
                cs.insert(i, c);
            },
            5 => {
                let at = t.below(len + 1);
                cs.insert(at, t.pick(MB));
            },
            6 if len > 0 => {
                let i = t.below(len);
                cs[i] = t.pick(&['*', '/', '{', '}', '<', '>', ':', ',', '[', ']', '(', ')', '\\', 'é', '😀']);
            },
            _ => {
                let at = t.below(len + 1);
                let ins = t.pick(INS);
                for (k, c) in ins.chars().enumerate() {
                    cs.insert((at + k).min(cs.len()), c);
                }
            },
        }
    }
    cs.into_iter().collect()
}

fn gen_dense(t: &mut Tape) -> String {
    let n = t.below(14);
    let mut s = String::new();
    for _ in 0..n {
        if t.chance(90) {
            s.push(t.pick(MB));
        }
        else {
            s.push_str(t.pick(INS));
        }
    }
    s
}

/// check every located span of a build error; Err = violation text
fn check_error_spans(text: &str, e: &wax::BuildError, st: &mut Stats) -> Result<(), String> {
    use wax::query::LocatedError;
    let locs: Vec<((usize, usize), String)> = match guard(|| {
        e.locations().map(|l: &dyn LocatedError| (l.span(), l.to_string())).collect::<Vec<_>>()
    }) {
        Ok(v) => v,
        Err(m) => return Err(format!("{:?}: evaluating the error locations panicked: {}", text, m)),
    };
    let _ = guard(|| e.to_string()).map_err(|m| format!("{:?}: Display of the build error panicked: {}", text, m))?;
    for ((start, len), label) in &locs {
        st.eval(1);
        st.count("error_spans");
        let end = start.checked_add(*len);
        let inside = end.map_or(false, |e| e <= text.len());
        let ok_bounds = inside && text.is_char_boundary(*start) && text.is_char_boundary(end.unwrap());
        let sliced = guard(|| {
            let fragment = &text[*start..][..*len];
            fragment.len()
        });
        if !ok_bounds || sliced.is_err() {
            return Err(format!(
                "expression {:?} ({} bytes): error location `{}` has span ({}, {}) — {}; slicing `&expr[start..][..n]` {}",
                text,
                text.len(),
                label,
                start,
                len,
                if !inside { "it reaches beyond the end of the expression" } else { "it does not start and end on character boundaries" },
                if sliced.is_err() { "panics" } else { "happens not to panic" }
            ));
        }
        // non-trivial: a multi-byte character within 2 chars of the span, or the span ends at the end
        let near = {
            let lo = text[..*start].char_indices().rev().nth(1).map_or(0, |x| x.0);
            let hi_start = end.unwrap();
            let hi = text[hi_start..].char_indices().nth(2).map_or(text.len(), |x| hi_start + x.0);
            text[lo..hi].chars().any(|c| c.len_utf8() > 1)
        };
        if near {
            st.count("error_span_near_multibyte");
        }
        if end.unwrap() == text.len() {
            st.count("error_span_at_end");
        }
        if near || end.unwrap() == text.len() {
            st.nontrivial(&(text, *start, *len), || json!({"expression": text, "error": label, "span": [start, len]}));
        }
    }
    Ok(())
}

impl Property for C17 {
    type Case = Case;
    fn id(&self) -> &'static str {
        "C17"
    }
    fn rule(&self) -> String {
        "failing inputs: rendered ASTs with multi-byte literals next to every token broken by one or \
         two structural mutations (deleted delimiter, inserted meta text directly before/after a \
         multi-byte character, truncation, fault at the end), rule-violating ASTs with multi-byte \
         literals, meta-dense strings; building inputs: ASTs with multi-byte literals and flag \
         groups in front of capturing tokens, and their partitions; one evaluation = one span; \
         non-trivial (errors) = a multi-byte character within two characters of the span or the \
         span ends at the end of the expression; (captures) = >= 2 captures or a partition with a \
         non-empty prefix; distinct by (expression, span)"
            .into()
    }
    fn assumptions(&self) -> Vec<String> {
        vec![
            "a capture's span may or may not include the flag groups directly in front of its sub-expression (both delimit `its sub-expression`)".into(),
            "after partitioning an unrooted tree wildcard gives up its leading separator".into(),
        ]
    }
    fn budget(&self, tier: Tier) -> (u32, u32) {
        match tier {
            Tier::Quick => (8000, 8),
            Tier::Thorough => (400000, 16),
        }
    }
    fn required_counters(&self) -> Vec<&'static str> {
        vec!["parse_errors", "rule_errors", "error_spans", "error_span_near_multibyte", "error_span_at_end", "capture_spans", "partition_capture_spans", "flags_before_capture"]
    }
    fn decode(&self, t: &mut Tape) -> Case {
        match t.weighted(&[40, 15, 15, 30]) {
            0 => {
                let e = gen_expr(t, &mb_cfg());
                let e = multibyte(&e, t);
                let s = render_text(&normalize(&e, true));
                Case::Raw { text: mutate_text(&s, t) }
            },
            1 => {
                let mut c = mb_cfg();
                c.violate = 90;
                let e = gen_expr(t, &c);
                let e = multibyte(&e, t);
                Case::Raw { text: render_text(&normalize(&e, true)) }
            },
            2 => Case::Raw { text: gen_dense(t) },
            _ => {
                let e = gen_expr(t, &mb_cfg());
                let e = multibyte(&e, t);
                Case::Ast { expr: normalize(&e, true) }
            },
        }
    }
    fn directed(&self) -> Vec<Case> {
        ["{a", "a/[é", "<a:é>", "é{", "字**", "<a:1,", "a\\", "(?", "{é,", "<é:2,1>", "é**/{字,**}", "[a-é"]
            .iter()
            .map(|s| Case::Raw { text: s.to_string() })
            .collect()
    }
    fn shrink(&self, c: &Case) -> Vec<Case> {
        match c {
            Case::Raw { text } => {
                let cs: Vec<char> = text.chars().collect();
                (0..cs.len())
                    .map(|i| Case::Raw { text: cs.iter().enumerate().filter(|(j, _)| *j != i).map(|x| *x.1).collect() })
                    .collect()
            },
            Case::Ast { expr } => shrink_expr(expr).into_iter().map(|e| Case::Ast { expr: normalize(&e, true) }).collect(),
        }
    }
    fn check(&self, case: &Case, st: &mut Stats) -> CheckResult {
        match case {
            Case::Raw { text } => {
                match guard(|| Glob::new(text).map(|g| g.captures().map(|c| c.span()).collect::<Vec<_>>())) {
                    Err(_) => {
                        st.panicked += 1;
                        Ok(())
                    },
                    Ok(Ok(spans)) => {
                        st.count("raw_built");
                        for (s, n) in spans {
                            st.eval(1);
                            if text.get(s..s + n).is_none() {
                                return Err(format!("expression {:?}: capture span ({}, {}) does not index the expression on character boundaries", text, s, n));
                            }
                        }
                        Ok(())
                    },
                    Ok(Err(e)) => {
                        match e.verif_kind() {
                            "parse" => st.count("parse_errors"),
                            "rule" => st.count("rule_errors"),
                            _ => {},
                        }
                        check_error_spans(text, &e, st)
                    },
                }
            },
            Case::Ast { expr } => {
                let r = render(expr);
                let text = &r.text;
                let g = match build_either(text) {
                    Ok(Ok(g)) => g,
                    Ok(Err(e)) => {
                        st.count("ast_not_built");
                        return check_error_spans(text, &e, st);
                    },
                    Err(_) => {
                        st.panicked += 1;
                        return Ok(());
                    },
                };
                let toks: Vec<&TokSpan> = r.top.iter().filter(|t| t.capturing).collect();
                let caps: Vec<(usize, (usize, usize))> = g.captures().map(|c| (c.index(), c.span())).collect();
                if caps.len() != toks.len() {
                    return Err(format!("`{}`: {} capture spans for {} capturing top-level tokens", text, caps.len(), toks.len()));
                }
                for ((_, (s, n)), tk) in caps.iter().zip(toks.iter()) {
                    st.eval(1);
                    st.count("capture_spans");
                    if tk.start_flags != tk.start {
                        st.count("flags_before_capture");
                    }
                    let got = text.get(*s..*s + *n);
                    let with = &text[tk.start_flags..tk.end];
                    let without = &text[tk.start..tk.end];
                    if got != Some(with) && got != Some(without) {
                        return Err(format!(
                            "`{}`: capture span ({}, {}) = {:?} does not delimit its sub-expression {:?}",
                            text, s, n, got, without
                        ));
                    }
                    if caps.len() >= 2 {
                        st.nontrivial(&(text.as_str(), *s, *n), || json!({"glob": text, "capture_span": [s, n], "text": got}));
                    }
                }
                // partition: spans refer to the postfix expression
                let part = guard(|| {
                    let (pre, post) = g.clone().partition();
                    (pre, post.map(|p| (p.to_string(), p.captures().map(|c| c.span()).collect::<Vec<_>>())))
                });
                if let Ok((pre, Some((shown, pspans)))) = part {
                    let known_flags = crate::findings::is_open("F-PART-FLAGS", "C17")
                        && crate::props::c08::flags_trigger(expr, text, Some(&shown));
                    let k0 = toks.len().saturating_sub(pspans.len());
                    for (j, (s, n)) in pspans.iter().enumerate() {
                        st.eval(1);
                        st.count("partition_capture_spans");
                        let got = shown.get(*s..*s + *n);
                        let tk = match toks.get(k0 + j) {
                            Some(t) => t,
                            None => break,
                        };
                        let with = &text[tk.start_flags..tk.end];
                        let without = &text[tk.start..tk.end];
                        let ok = match got {
                            Some(x) => x == with || x == without || (without.starts_with('/') && x == &without[1..]),
                            None => false,
                        };
                        if !ok {
                            if known_flags {
                                st.known("F-PART-FLAGS", || format!("`{}` → postfix `{}`: span ({}, {}) = {:?}", text, shown, s, n, got));
                                continue;
                            }
                            return Err(format!(
                                "`{}` → prefix {:?}, postfix `{}`: capture span ({}, {}) = {:?} does not delimit the sub-expression {:?}",
                                text, pre, shown, s, n, got, without
                            ));
                        }
                        if !pre.as_os_str().is_empty() {
                            st.nontrivial(&(shown.as_str(), *s, *n, "p"), || json!({"glob": text, "postfix": shown, "capture_span": [s, n], "text": got}));
                        }
                    }
                }
                Ok(())
            },
        }
    }
}
