//! C18 — Escaping turns any text into a glob that matches exactly that text.

use crate::engine::*;
use crate::gen::*;
use crate::props::common::*;
use serde::{Deserialize, Serialize};
use serde_json::json;
use std::borrow::Cow;
use wax::query::TextVariance;
use wax::Program;

pub struct C18;

#[derive(Serialize, Deserialize, Clone, Debug)]
pub struct Case {
    pub text: String,
}

const METAS: &[char] = &['?', '*', '$', ':', '<', '>', '(', ')', '[', ']', '{', '}', ','];
const SNIPPETS: &[&str] = &[
    "(?i)", "(?-i)", "[a-z]", "[!a]", "[]", "<a:1,2>", "<a>", "**", "a/**/b", "{a,b}", "*.rs", "$", "a-b", "!", "-", "[a\\-]", "..", ".", "é", "字", "😀", " ", "\n", "\t", "/", "a", "0", "~", "^", "|", "+", "#", "&&", "%", "@", "'", "\"", ";",
];

/// bring an arbitrary string into the stated domain: no backslash, no adjacent separators
fn into_domain(s: &str) -> String {
    let mut out = String::new();
    for c in s.chars() {
        if c == '\\' {
            continue;
        }
        if c == '/' && out.ends_with('/') {
            continue;
        }
        out.push(c);
    }
    while out.len() >= 0x10000 {
        out.pop();
    }
    out
}

fn mutants(s: &str) -> Vec<String> {
    let cs: Vec<char> = s.chars().collect();
    let mut out = Vec::new();
    let n = cs.len();
    let join = |v: Vec<char>| -> String { v.into_iter().collect() };
    if n > 0 {
        for i in [0, n / 2, n - 1] {
            let mut v = cs.clone();
            v.remove(i);
            out.push(join(v));
            let mut v = cs.clone();
            v[i] = if cs[i] == 'x' { 'y' } else { 'x' };
            out.push(join(v));
            let c = cs[i];
            for f in c.to_uppercase().chain(c.to_lowercase()) {
                if f != c {
                    let mut v = cs.clone();
                    v[i] = f;
                    out.push(join(v));
                }
            }
            if c == '/' {
                let mut v = cs.clone();
                v.insert(i, '/');
                out.push(join(v));
            }
            else {
                let mut v = cs.clone();
                v.insert(i, '/');
                out.push(join(v));
            }
        }
    }
    // a separator is `/` and nothing else: the same text with a backslash in place of one or of
    // every separator is another path
    {
        let seps: Vec<usize> = (0..n).filter(|i| cs[*i] == '/').collect();
        if !seps.is_empty() {
            for i in [seps[0], seps[seps.len() / 2], seps[seps.len() - 1]] {
                let mut v = cs.clone();
                v[i] = '\\';
                out.push(join(v));
            }
            out.push(s.replace('/', "\\"));
        }
    }
    out.push(format!("{}a", s));
    out.push(format!("a{}", s));
    // the text as one *line* of a longer path (anchors must be text anchors, not line anchors)
    out.push(format!("{}\n", s));
    out.push(format!("\n{}", s));
    out.push(format!("x\n{}", s));
    out.push(format!("{}\ny", s));
    out.push(format!("x/y\n{}\nz", s));
    out.push(format!("{}/", s));
    out.push(format!("/{}", s));
    out.push(format!("{}\\", s));
    out.retain(|m| m != s);
    out
}

fn check_text(s: &str, st: &mut Stats) -> CheckResult {
    st.eval(1);
    let escaped = wax::escape(s);
    let has_meta = s.chars().any(|c| METAS.contains(&c));
    if !has_meta {
        if !matches!(escaped, Cow::Borrowed(_)) || escaped.as_ref() != s {
            return Err(format!("escape({:?}) = {:?}: a string without meta-characters must be left unchanged (borrowed)", s, escaped));
        }
        st.count("no_meta_unchanged");
    }
    else {
        // every meta character prefixed by exactly one backslash, nothing else changed
        let mut expect = String::new();
        for c in s.chars() {
            if METAS.contains(&c) {
                expect.push('\\');
            }
            expect.push(c);
        }
        if escaped.as_ref() != expect {
            return Err(format!("escape({:?}) = {:?}, expected {:?}", s, escaped, expect));
        }
    }
    let g = match build(escaped.as_ref()) {
        Ok(Ok(g)) => g,
        Ok(Err(e)) => return Err(format!("escape({:?}) = {:?} does not build: {}", short_str(s), short_str(&escaped), e)),
        Err(m) => return Err(format!("building escape({:?}) panicked: {}", short_str(s), m)),
    };
    match g.text() {
        TextVariance::Invariant(t) if t.as_ref() == s => {},
        other => return Err(format!("escape({:?}) builds into a glob with text {:?}", short_str(s), other)),
    }
    if !g.is_match(s) {
        return Err(format!("the glob built from escape({:?}) does not match the text itself", short_str(s)));
    }
    if g.captures().count() != 0 {
        return Err(format!("the glob built from escape({:?}) has capturing tokens", short_str(s)));
    }
    if s.len() < 4096 {
        for m in mutants(s) {
            st.eval(1);
            if g.is_match(m.as_str()) {
                return Err(format!("the glob built from escape({:?}) also matches the different path {:?}", s, m));
            }
        }
    }
    if has_meta && (s.contains('/') || !s.is_ascii()) {
        st.nontrivial(s, || json!({"text": short_str(s), "escaped": short_str(&escaped)}));
    }
    if has_meta {
        st.count("with_meta");
    }
    Ok(())
}

fn short_str(s: &str) -> String {
    if s.len() <= 120 {
        s.to_string()
    }
    else {
        let mut end = 60;
        while !s.is_char_boundary(end) {
            end += 1;
        }
        format!("{}…({} bytes)", &s[..end], s.len())
    }
}

fn check_char(c: char, st: &mut Stats) -> CheckResult {
    st.eval(1);
    st.count("swept_chars");
    let is_meta = wax::is_meta_character(c);
    if is_meta != METAS.contains(&c) {
        // the documented meta set (README: `?*$:<>()[]{},`)
        return Err(format!("is_meta_character({:?}) = {}", c, is_meta));
    }
    if wax::is_contextual_meta_character(c) != (c == '-') {
        return Err(format!("is_contextual_meta_character({:?}) = {}", c, wax::is_contextual_meta_character(c)));
    }
    if c == '/' || c == '\\' {
        return Ok(());
    }
    let s = format!("x{}y", c);
    if !is_meta {
        // the parser must not treat it as a pattern
        match build(&s) {
            Ok(Ok(g)) => match g.text() {
                TextVariance::Invariant(t) if t.as_ref() == s => {},
                other => return Err(format!("{:?} is not reported as a meta-character but `{}` has text {:?}", c, s, other)),
            },
            Ok(Err(e)) => return Err(format!("{:?} is not reported as a meta-character but `{}` does not build: {}", c, s, e)),
            Err(m) => return Err(format!("building `{}` panicked: {}", s, m)),
        }
    }
    check_text(&s, st)?;
    check_text(&c.to_string(), st)
}

impl Property for C18 {
    type Case = Case;
    fn id(&self) -> &'static str {
        "C18"
    }
    fn rule(&self) -> String {
        "strings brought into the stated domain by construction (backslashes removed, adjacent \
         separators collapsed, shorter than 65536 bytes): arbitrary Unicode, meta-dense mixes of the \
         13 meta-characters with separators / `-` / `!` / digits / non-ASCII, flag-, class-, \
         repetition- and tree-like snippets, strings just below the size limit (fixed units, and characters whose other casing is longer in UTF-8); plus a sweep \
         of every ASCII character and sampled non-ASCII scalar values as `c` and `xcy`; one \
         evaluation = one round-trip or one rejected mutant; non-trivial = the string contains a \
         meta-character and a separator or non-ASCII character; distinct by string"
            .into()
    }
    fn assumptions(&self) -> Vec<String> {
        vec!["Unix: the only separator is `/`".into(), "the documented meta-character set is `?*$:<>()[]{},` (README); `-` is the only contextual meta-character".into()]
    }
    fn budget(&self, tier: Tier) -> (u32, u32) {
        match tier {
            Tier::Quick => (6000, 8),
            Tier::Thorough => (300000, 16),
        }
    }
    fn required_counters(&self) -> Vec<&'static str> {
        vec!["with_meta", "no_meta_unchanged", "swept_chars", "near_size_limit", "near_size_limit_case_expanding"]
    }
    fn decode(&self, t: &mut Tape) -> Case {
        let mut s = String::new();
        match t.weighted(&[40, 40, 20]) {
            0 => {
                let n = t.below(24);
                for _ in 0..n {
                    if t.chance(110) {
                        s.push(t.pick(METAS));
                    }
                    else {
                        s.push(t.pick(&['a', '/', '-', '!', '0', '9', 'é', 'A', '.', ' ', '字']));
                    }
                }
            },
            1 => {
                let n = 1 + t.below(6);
                for _ in 0..n {
                    s.push_str(t.pick(SNIPPETS));
                }
            },
            _ => {
                // arbitrary scalar values
                let n = t.below(16);
                for _ in 0..n {
                    let v = ((t.byte() as u32) << 16 | (t.byte() as u32) << 8 | t.byte() as u32) % 0x11_0000;
                    if let Some(c) = char::from_u32(v) {
                        s.push(c);
                    }
                    else {
                        s.push(t.pick(METAS));
                    }
                }
            },
        }
        Case { text: into_domain(&s) }
    }
    fn shrink(&self, c: &Case) -> Vec<Case> {
        let cs: Vec<char> = c.text.chars().collect();
        if cs.len() > 64 {
            return vec![Case { text: cs[..cs.len() / 2].iter().collect() }, Case { text: cs[cs.len() / 2..].iter().collect() }];
        }
        (0..cs.len())
            .map(|i| Case { text: into_domain(&cs.iter().enumerate().filter(|(j, _)| *j != i).map(|x| *x.1).collect::<String>()) })
            .collect()
    }
    fn check(&self, case: &Case, st: &mut Stats) -> CheckResult {
        let s = into_domain(&case.text);
        check_text(&s, st)
    }
    fn extra(&self, tier: Tier, st: &mut Stats) -> Result<(), (Case, String)> {
        // exhaustive ASCII sweep + sampled non-ASCII scalar values
        for b in 0u8..128 {
            let c = b as char;
            if let Err(m) = check_char(c, st) {
                return Err((Case { text: c.to_string() }, m));
            }
        }
        let samples = match tier {
            Tier::Quick => 2000u32,
            Tier::Thorough => 60000,
        };
        let mut v: u32 = 0x80;
        for i in 0..samples {
            // a fixed stride walk over the scalar value space (deterministic, no RNG)
            v = (v + 0x11_0000 / samples + (i % 7)) % 0x11_0000;
            if let Some(c) = char::from_u32(v.max(0x80)) {
                if let Err(m) = check_char(c, st) {
                    return Err((Case { text: c.to_string() }, m));
                }
            }
        }
        // strings just below the size limit
        for (unit, total) in [("a", 0xFFFFusize), ("é/", 0xFFFE), ("*a", 0xFFFE), ("{", 0x8000), ("a/b*c", 0xFFF0)] {
            let reps = total / unit.len();
            let s: String = unit.repeat(reps);
            let s = into_domain(&s);
            st.count("near_size_limit");
            if let Err(m) = check_text(&s, st) {
                return Err((Case { text: s }, m));
            }
        }
        // ... and strings whose length in bytes is just below the limit while a differently-cased
        // form would not be: the limit concerns the text itself.  Characters whose upper- or
        // lower-case form is longer in UTF-8 (`ɐ`, `İ`, `ŉ`, `ΐ`, ...) are found by a sweep.
        let expanding: Vec<char> = (0x80u32..0x3_0000)
            .filter_map(char::from_u32)
            .filter(|c| {
                let n = c.len_utf8();
                c.to_uppercase().map(|x| x.len_utf8()).sum::<usize>() > n || c.to_lowercase().map(|x| x.len_utf8()).sum::<usize>() > n
            })
            .collect();
        let picks = match tier {
            Tier::Quick => 6usize,
            Tier::Thorough => 48,
        };
        if !expanding.is_empty() {
            let stride = (expanding.len() / picks).max(1);
            for (k, c) in expanding.iter().step_by(stride).take(picks).enumerate() {
                let n = c.len_utf8();
                // (1) the character alone, repeated to just below the limit (about 2/3 of it when
                //     k is odd: the other casing of the whole string would cross the limit)
                let total = if k % 2 == 0 { 0xFFFF } else { 0xB000 };
                let a: String = c.to_string().repeat(total / n);
                // (2) exactly limit - 1 bytes with a single such character
                let mut b = "a".repeat(0xFFFF - n);
                b.insert(0xFFFF / 2, *c);
                for s in [a, b] {
                    let s = into_domain(&s);
                    st.count("near_size_limit");
                    st.count("near_size_limit_case_expanding");
                    if let Err(m) = check_text(&s, st) {
                        return Err((Case { text: s }, m));
                    }
                }
            }
        }
        Ok(())
    }
}
