//! Tape-driven generators.  Every random choice is read from a byte tape that proptest generates
//! (and shrinks); byte 0 always selects the simplest alternative, and an exhausted tape yields
//! zeros, so shorter / smaller tapes mean simpler cases.  The same decoders serve the libFuzzer
//! targets (structure-aware fuzzing from raw bytes).

use crate::ast::*;

pub struct Tape<'a> {
    data: &'a [u8],
    pos: usize,
}

impl<'a> Tape<'a> {
    pub fn new(data: &'a [u8]) -> Self {
        Tape { data, pos: 0 }
    }
    pub fn byte(&mut self) -> u8 {
        let b = self.data.get(self.pos).copied().unwrap_or(0);
        self.pos += 1;
        b
    }
    pub fn exhausted(&self) -> bool {
        self.pos >= self.data.len()
    }
    /// monotone map of one byte onto 0..n (n ≤ 256); byte 0 → 0
    pub fn below(&mut self, n: usize) -> usize {
        if n <= 1 {
            return 0;
        }
        if n <= 256 {
            (self.byte() as usize * n) >> 8
        }
        else {
            let v = ((self.byte() as usize) << 8) | self.byte() as usize;
            (v * n) >> 16
        }
    }
    /// true with probability p/256; byte 0 → false
    pub fn chance(&mut self, p: u32) -> bool {
        (self.byte() as u32) + p >= 256
    }
    pub fn pick<T: Clone>(&mut self, xs: &[T]) -> T {
        xs[self.below(xs.len())].clone()
    }
    /// weighted choice, index 0 is the "simplest"
    pub fn weighted(&mut self, ws: &[u32]) -> usize {
        let total: u32 = ws.iter().sum();
        if total == 0 {
            return 0;
        }
        let mut x = (self.byte() as u32 * total) >> 8;
        for (i, w) in ws.iter().enumerate() {
            if x < *w {
                return i;
            }
            x -= *w;
        }
        ws.len() - 1
    }
}

pub const ALPHA: &[char] =
    &['a', 'b', 'A', 'B', '.', '-', '_', '0', '1', 'é', 'É', '字', ' ', '\n', '𐐨', '𐐀', '\u{301}', '\u{feff}', '\t'];
/// characters used for path components (no separator)
pub const PATH_ALPHA: &[char] =
    &['a', 'b', 'A', 'B', '.', '-', '_', '0', '1', 'é', 'É', '字', ' ', '\n', 'x', '*', '[', '{', ',', '𐐨', '𐐀', '\u{301}', '\u{feff}', '\t'];

pub const K_B: u8 = 1; // boundary
pub const K_Z: u8 = 2; // zero-or-more
pub const K_O: u8 = 4; // other
pub const K_START: u8 = 8; // nothing precedes (expression start)

/// possible kinds of the last leaf of a token (repetition bodies taken at least once)
pub fn ends_tok(t: &Tok) -> u8 {
    match t {
        Tok::Sep | Tok::Tree { .. } => K_B,
        Tok::Zom { .. } => K_Z,
        Tok::Alt(bs) => bs.iter().fold(0, |a, b| a | ends_expr(b)),
        Tok::Rep { body, .. } => ends_expr(body),
        Tok::Flag(_) => 0,
        _ => K_O,
    }
}
pub fn ends_expr(e: &Expr) -> u8 {
    e.iter().rev().find(|t| !t.is_flag()).map_or(0, ends_tok)
}
pub fn starts_tok(t: &Tok) -> u8 {
    match t {
        Tok::Sep | Tok::Tree { .. } => K_B,
        Tok::Zom { .. } => K_Z,
        Tok::Alt(bs) => bs.iter().fold(0, |a, b| a | starts_expr(b)),
        Tok::Rep { body, .. } => starts_expr(body),
        Tok::Flag(_) => 0,
        _ => K_O,
    }
}
pub fn starts_expr(e: &Expr) -> u8 {
    e.iter().find(|t| !t.is_flag()).map_or(0, starts_tok)
}
/// can some unfolding of the token begin with a rooting leaf (`/` or `/**`)?
pub fn starts_rooting_tok(t: &Tok) -> bool {
    match t {
        Tok::Sep => true,
        Tok::Tree { lead, .. } => *lead,
        Tok::Alt(bs) => bs.iter().any(starts_rooting_expr),
        Tok::Rep { body, .. } => starts_rooting_expr(body),
        _ => false,
    }
}
pub fn starts_rooting_expr(e: &Expr) -> bool {
    e.iter().find(|t| !t.is_flag()).map_or(false, starts_rooting_tok)
}

/// can some unfolding begin / end with a tree wildcard?
pub fn starts_with_tree(e: &Expr) -> bool {
    match e.iter().find(|t| !t.is_flag()) {
        Some(Tok::Tree { .. }) => true,
        Some(Tok::Alt(bs)) => bs.iter().any(starts_with_tree),
        Some(Tok::Rep { body, .. }) => starts_with_tree(body),
        _ => false,
    }
}
pub fn ends_with_tree(e: &Expr) -> bool {
    match e.iter().rev().find(|t| !t.is_flag()) {
        Some(Tok::Tree { .. }) => true,
        Some(Tok::Alt(bs)) => bs.iter().any(ends_with_tree),
        Some(Tok::Rep { body, .. }) => ends_with_tree(body),
        _ => false,
    }
}

/// Does the expression contain a character class that lists a separator?  Such a class has the
/// invariant text `/` (so a glob like `[/]` walks the real file system root) and matches nothing.
pub fn has_sep_class(e: &Expr) -> bool {
    any_tok(e, &|t, _| match t {
        Tok::Class { items, .. } => items.iter().any(|i| match i {
            Item::Ch(c) => *c == '/',
            Item::Range(a, b) => *a <= '/' && '/' <= *b,
        }),
        _ => false,
    })
}

/// Does the expression contain a tree wildcard that is not delimited *in the expression* by its
/// own separators or by the ends of the whole expression (`a{**/b}`, `{a/**}b`, `<**/a:2>`,
/// `<a/**:2>`)?  The documentation does not define what such a wildcard matches.
pub fn has_undelimited_tree(e: &Expr) -> bool {
    fn go(e: &Expr, at_start: bool, at_end: bool) -> bool {
        let idx: Vec<usize> = (0..e.len()).filter(|i| !e[*i].is_flag()).collect();
        for (k, &i) in idx.iter().enumerate() {
            let first = k == 0;
            let last = k + 1 == idx.len();
            match &e[i] {
                Tok::Tree { lead, .. } => {
                    if (!*lead && !(first && at_start)) || (last && !at_end) {
                        return true;
                    }
                },
                Tok::Alt(bs) => {
                    if bs.iter().any(|b| go(b, first && at_start, last && at_end)) {
                        return true;
                    }
                },
                Tok::Rep { body, hi, .. } => {
                    let once = *hi == Some(1);
                    // later iterations are not at the start, earlier ones not at the end
                    if go(body, first && at_start && once, last && at_end && once)
                        && (starts_with_tree(body) || ends_with_tree(body) || go(body, true, true))
                    {
                        return true;
                    }
                },
                _ => {},
            }
        }
        false
    }
    go(e, true, true)
}

#[derive(Clone, Debug)]
pub struct GenCfg {
    pub max_depth: usize,
    pub max_toks: usize,
    /// probability (/256) that a rule constraint is deliberately ignored
    pub violate: u32,
    pub noise_flags: u32,
    pub ci: u32,
    pub allow_rooted: bool,
    /// literal texts are drawn from here when given (file names of a generated tree)
    pub names: Option<Vec<String>>,
    /// weights: Lit Sep One Zom Tree Class Alt Rep
    pub weights: [u32; 8],
    pub exotic_ci: bool,
    pub class_sep: u32,
    pub max_bound: usize,
}

impl Default for GenCfg {
    fn default() -> Self {
        GenCfg {
            max_depth: 3,
            max_toks: 7,
            violate: 0,
            noise_flags: 10,
            ci: 50,
            allow_rooted: true,
            names: None,
            weights: [30, 14, 6, 10, 9, 8, 12, 11],
            exotic_ci: false,
            class_sep: 12,
            max_bound: 3,
        }
    }
}

pub const EXOTIC: &[char] = &['ǅ', 'ǈ', 'ǲ', 'ᾈ'];
/// literal characters that mean something to the regex back end but nothing to a glob
pub const REGEX_SPECIAL: &[char] = &['|', '+', '^', '#', '&', '~', '=', '@', '%', ';', '\'', '"'];

fn gen_lit(t: &mut Tape, cfg: &GenCfg) -> Tok {
    let ci = t.chance(cfg.ci);
    if let Some(names) = &cfg.names {
        if !names.is_empty() && !t.chance(40) {
            let text: String = t.pick(names);
            if !text.is_empty() {
                return Tok::Lit { text, ci };
            }
        }
    }
    let n = 1 + t.weighted(&[60, 30, 10]);
    let mut text = String::new();
    for _ in 0..n {
        if cfg.exotic_ci && ci && t.chance(40) {
            text.push(t.pick(EXOTIC));
        }
        else if t.chance(16) {
            text.push(t.pick(META));
        }
        else if t.chance(12) {
            // not special in a glob, but special in the regular expression it compiles to
            text.push(t.pick(REGEX_SPECIAL));
        }
        else {
            text.push(t.pick(ALPHA));
        }
    }
    Tok::Lit { text, ci }
}

fn gen_class(t: &mut Tape, cfg: &GenCfg) -> Tok {
    let neg = t.chance(64);
    if t.chance(22) {
        // members that mean something inside a class of the regular expression the glob compiles
        // to (negation, set operators, named classes, escapes) but nothing in a glob class
        let items: Vec<Item> = match t.below(12) {
            0 => vec![Item::Ch('^')],
            1 => vec![Item::Ch('^'), Item::Ch('^')],
            2 => vec![Item::Range('^', '^')],
            3 => vec![Item::Ch('&')],
            4 => vec![Item::Ch('a'), Item::Ch('&'), Item::Ch('&'), Item::Ch('b')],
            5 => vec![Item::Ch('a'), Item::Ch('~'), Item::Ch('~'), Item::Ch('b')],
            6 => vec![Item::Ch('&'), Item::Ch('&')],
            7 => vec![Item::Ch('a'), Item::Ch('-'), Item::Ch('-'), Item::Ch('b')],
            8 => vec![Item::Ch('['), Item::Ch(':'), Item::Ch('a'), Item::Ch(':'), Item::Ch(']')],
            9 => vec![Item::Ch('^'), Item::Ch('a')],
            10 => vec![Item::Ch('a'), Item::Ch('&')],
            _ => vec![Item::Ch('~')],
        };
        return Tok::Class { neg, items };
    }
    let n = 1 + t.weighted(&[55, 30, 15]);
    let mut items = Vec::new();
    for _ in 0..n {
        if t.chance(50) {
            items.push(t.pick(&[
                Item::Range('a', 'b'),
                Item::Range('a', 'a'),
                Item::Range('A', 'B'),
                Item::Range('0', '1'),
                Item::Range('a', 'z'),
                Item::Range('é', 'é'),
                Item::Range('à', 'ï'),
                Item::Range('𐐀', '𐐨'),
                Item::Range('b', 'a'),
                // end points without casing around letters: no flag may make them caseless
                Item::Range('@', '_'),
                Item::Range('0', '_'),
                Item::Range('!', '.'),
                if cfg.class_sep == 0 { Item::Range('[', 'z') } else { Item::Range(' ', '~') },
                if cfg.class_sep == 0 { Item::Range('0', '1') } else { Item::Range('.', '0') },
            ]));
        }
        else if t.chance(cfg.class_sep) {
            items.push(Item::Ch('/'));
        }
        else if t.chance(24) {
            items.push(Item::Ch(t.pick(&['*', '?', '[', ']', '-', '{', ',', '$', '(', '^', '&', '!', ':', '>'])));
        }
        else {
            items.push(Item::Ch(t.pick(ALPHA)));
        }
    }
    Tok::Class { neg, items }
}

fn gen_bounds(t: &mut Tape, cfg: &GenCfg) -> (usize, Option<usize>, u8) {
    let lo = t.weighted(&[35, 45, 15, 5]).min(cfg.max_bound);
    let hi = match t.weighted(&[35, 25, 25, 15]) {
        0 => None,
        1 => Some(lo),
        2 => Some(lo + 1),
        _ => Some(cfg.max_bound.max(lo)),
    };
    let hi = match hi {
        Some(0) => Some(1),
        h => h,
    };
    let spell = t.weighted(&[120, 120, 16]) as u8;
    // now and then a bound of two or three digits (the number is parsed, not looked up)
    let (lo, hi) = if cfg.max_bound >= 3 && t.chance(10) {
        match t.below(12) {
            0 => (10, Some(10)),
            1 => (0, Some(11)),
            2 => (9, Some(12)),
            3 => (10, None),
            4 => (16, Some(16)),
            5 => (15, Some(17)),
            6 => (4, Some(20)),
            7 => (32, None),
            8 => (100, Some(100)),
            9 => (99, Some(101)),
            10 => (63, Some(65)),
            _ => (7, Some(8)),
        }
    }
    else {
        (lo, hi)
    };
    if cfg.violate > 0 && t.chance(cfg.violate / 3) {
        // misordered / degenerate bounds (rule R6); spelled canonically so that they stay as written
        return match t.below(3) {
            0 => (0, Some(0), 0),
            1 => (lo + 1 + t.below(2), Some(lo), 0),
            _ => (2, Some(1), 0),
        };
    }
    (lo, hi, spell)
}

/// Generate a concatenation.  `left`: kinds that may directly precede it (K_START when nothing
/// does).  With `cfg.violate == 0` the documented rules are respected by construction.
pub fn gen_concat(
    t: &mut Tape,
    cfg: &GenCfg,
    depth: usize,
    left: u8,
    top: bool,
    budget: &mut usize,
) -> Expr {
    let mut e: Expr = Vec::new();
    let want = if top {
        t.weighted(&[2, 18, 22, 20, 14, 10, 8, 6])
    }
    else {
        1 + t.weighted(&[40, 32, 18, 10])
    };
    let mut prev = left;
    let mut i = 0;
    let mut attempts = 0;
    while i < want && *budget > 0 && attempts < 3 * want + 6 {
        attempts += 1;
        let lenient = cfg.violate > 0 && t.chance(cfg.violate);
        let mut ws = cfg.weights;
        if depth >= cfg.max_depth {
            ws[6] = 0;
            ws[7] = 0;
        }
        let kind = t.weighted(&ws);
        if cfg.noise_flags > 0 && t.chance(cfg.noise_flags) {
            // a redundant flag group in front of this token (also before a tree wildcard that begins
            // the concatenation: flags may appear anywhere that does not split a tree wildcard)
            let v = match t.below(4) {
                0 => vec![true],
                1 => vec![false],
                2 => vec![true, false],
                _ => vec![false, true, true],
            };
            e.push(Tok::Flag(v));
        }
        let first = e.iter().all(|x| x.is_flag());
        let tok = match kind {
            0 => gen_lit(t, cfg),
            1 => {
                if !lenient
                    && (prev & K_B != 0
                        || (first && prev & K_START != 0 && (!top || !cfg.allow_rooted)))
                {
                    continue;
                }
                Tok::Sep
            },
            2 => Tok::One,
            3 => {
                if !lenient && prev & K_Z != 0 {
                    continue;
                }
                // directly adjacent in the same concatenation: `**` lexes differently, and `*$` /
                // `$*` / `$$` are rule violations (only generated in the rule-agnostic mode)
                match e.iter().rev().find(|x| !x.is_flag()) {
                    Some(Tok::Zom { lazy: prev_lazy }) => {
                        if !lenient {
                            continue;
                        }
                        let lazy = t.chance(64);
                        if !(*prev_lazy || lazy) {
                            continue;
                        }
                        Tok::Zom { lazy }
                    },
                    _ => Tok::Zom { lazy: t.chance(64) },
                }
            },
            4 => {
                if !lenient && prev & K_B != 0 {
                    continue;
                }
                let lead = if !first {
                    true
                }
                else if prev & K_START != 0 {
                    // expression start: a rooted tree wildcard only at the top level
                    let want = t.chance(70);
                    want && ((top && cfg.allow_rooted) || lenient)
                }
                else {
                    // first in a branch that follows something: `x{/**/a}` is the delimited
                    // form; `x{**/a}` (undelimited) is kept rare
                    !t.chance(30)
                };
                Tok::Tree { lead, trail: t.chance(8) }
            },
            5 => gen_class(t, cfg),
            6 => {
                let n = 1 + t.weighted(&[30, 45, 25]);
                let mut bs = Vec::new();
                let l = if first { prev } else { prev & !K_START };
                for _ in 0..n {
                    *budget = budget.saturating_sub(1);
                    let mut b = gen_concat(t, cfg, depth + 1, l, false, budget);
                    if b.len() == 1 && matches!(b[0], Tok::Tree { .. }) && !lenient {
                        b.push(gen_lit(t, cfg));
                    }
                    bs.push(b);
                }
                Tok::Alt(bs)
            },
            _ => {
                let (lo, hi, spell) = gen_bounds(t, cfg);
                let mut l = if first { prev } else { prev & !K_START };
                if lo > 0 && l & K_START != 0 && top && cfg.allow_rooted && t.chance(128) {
                    // a repetition taken at least once may root the expression (`</a:1,>`)
                    l = 0;
                }
                *budget = budget.saturating_sub(1);
                let mut body = gen_concat(t, cfg, depth + 1, l, false, budget);
                if !lenient {
                    let single = body.iter().filter(|x| !x.is_flag()).count() == 1;
                    if single
                        && matches!(
                            body.iter().find(|x| !x.is_flag()),
                            Some(Tok::Sep | Tok::Zom { .. } | Tok::Tree { .. })
                        )
                    {
                        body.push(gen_lit(t, cfg));
                    }
                    if hi != Some(1) {
                        let s = starts_expr(&body);
                        let en = ends_expr(&body);
                        if (s & K_B != 0 && en & K_B != 0) || (s & K_Z != 0 && en & K_Z != 0) {
                            body.push(gen_lit(t, cfg));
                        }
                    }
                }
                Tok::Rep { body, lo, hi, spell }
            },
        };
        prev = match &tok {
            Tok::Lit { .. } | Tok::One | Tok::Class { .. } => K_O,
            other => {
                let k = ends_tok(other);
                if k == 0 {
                    K_O
                }
                else {
                    k
                }
            },
        };
        e.push(tok);
        *budget = budget.saturating_sub(1);
        i += 1;
    }
    normalize(&e, top)
}

pub fn gen_expr(t: &mut Tape, cfg: &GenCfg) -> Expr {
    let mut budget = cfg.max_toks * 3;
    let e = gen_concat(t, cfg, 0, K_START, true, &mut budget);
    merge_lits(&e)
}

// ------------------------------------------------------------------------------------------------
// paths

pub fn gen_component(t: &mut Tape) -> String {
    let n = 1 + t.weighted(&[55, 30, 15]);
    (0..n).map(|_| t.pick(PATH_ALPHA)).collect()
}

/// random path: 0–4 components, optional leading / trailing separator, optional empty component
pub fn gen_random_path(t: &mut Tape) -> String {
    let n = t.weighted(&[8, 30, 30, 20, 12]);
    let mut comps: Vec<String> = (0..n).map(|_| gen_component(t)).collect();
    if n > 0 && t.chance(10) {
        let i = t.below(n);
        comps[i] = String::new();
    }
    let mut s = comps.join("/");
    if t.chance(50) {
        s.insert(0, '/');
    }
    if t.chance(20) {
        s.push('/');
    }
    s
}

fn flip_case(c: char) -> char {
    if c.is_lowercase() {
        let mut u = c.to_uppercase();
        if u.len() == 1 {
            return u.next().unwrap();
        }
    }
    else if c.is_uppercase() {
        let mut l = c.to_lowercase();
        if l.len() == 1 {
            return l.next().unwrap();
        }
    }
    c
}

/// one or two edits of a path that produce near misses on both sides of a language boundary
pub fn mutate_path(t: &mut Tape, p: &str) -> String {
    let mut cs: Vec<char> = p.chars().collect();
    let edits = 1 + t.below(2);
    for _ in 0..edits {
        let n = cs.len();
        match t.below(15) {
            0 if n > 0 => {
                let i = t.below(n);
                cs.remove(i);
            },
            14 => {
                // a backslash is an ordinary character of a Unix path, not a separator
                let idx: Vec<usize> = (0..n).filter(|i| cs[*i] == '/').collect();
                if !idx.is_empty() {
                    let i = t.pick(&idx);
                    cs[i] = '\\';
                }
                else {
                    let i = t.below(n + 1);
                    cs.insert(i, '\\');
                }
            },
            1 => {
                let i = t.below(n + 1);
                cs.insert(i, t.pick(PATH_ALPHA));
            },
            2 if n > 0 => {
                let i = t.below(n);
                cs[i] = t.pick(PATH_ALPHA);
            },
            3 if n > 0 => {
                // flip the case of one cased letter
                let idx: Vec<usize> =
                    (0..n).filter(|i| flip_case(cs[*i]) != cs[*i]).collect();
                if !idx.is_empty() {
                    let i = t.pick(&idx);
                    cs[i] = flip_case(cs[i]);
                }
            },
            4 => {
                let i = t.below(n + 1);
                cs.insert(i, '/');
            },
            5 if n > 0 => {
                let idx: Vec<usize> = (0..n).filter(|i| cs[*i] == '/').collect();
                if !idx.is_empty() {
                    let i = t.pick(&idx);
                    cs.remove(i);
                }
            },
            6 => {
                // duplicate a component
                let s: String = cs.iter().collect();
                let comps: Vec<&str> = s.split('/').collect();
                let i = t.below(comps.len());
                let mut v: Vec<String> = comps.iter().map(|x| x.to_string()).collect();
                v.insert(i, comps[i].to_string());
                cs = v.join("/").chars().collect();
            },
            7 => {
                cs.push('/');
                cs.push('x');
            },
            8 => cs.push('/'),
            9 => cs.insert(0, '/'),
            10 => {
                let i = t.below(n + 1);
                cs.insert(i, '\n');
            },
            11 if n > 0 => {
                let i = t.below(n);
                cs.truncate(i);
            },
            12 if n > 0 => {
                // drop a whole component
                let s: String = cs.iter().collect();
                let mut v: Vec<String> = s.split('/').map(|x| x.to_string()).collect();
                if v.len() > 1 {
                    let i = t.below(v.len());
                    v.remove(i);
                    cs = v.join("/").chars().collect();
                }
            },
            _ => {
                cs.push(t.pick(PATH_ALPHA));
            },
        }
    }
    cs.into_iter().collect()
}

/// canonical: no empty component, no trailing separator; "" and "/" are canonical
pub fn is_canonical(p: &str) -> bool {
    if p.is_empty() || p == "/" {
        return true;
    }
    let body = p.strip_prefix('/').unwrap_or(p);
    !body.is_empty() && !body.ends_with('/') && !body.split('/').any(|c| c.is_empty())
}

pub fn canonicalize(p: &str) -> String {
    let rooted = p.starts_with('/');
    let comps: Vec<&str> = p.split('/').filter(|c| !c.is_empty()).collect();
    let mut s = comps.join("/");
    if rooted {
        s.insert(0, '/');
    }
    s
}

pub fn component_count(p: &str) -> usize {
    p.split('/').filter(|c| !c.is_empty()).count()
}
