//! waxverif library: generators, oracles, engine and property checks (shared by the `waxverif`
//! binary and the cargo-fuzz targets in /verif/fuzz).

pub mod ast;
pub mod astops;
pub mod engine;
pub mod findings;
pub mod fsmodel;
pub mod fuzzglue;
pub mod gen;
pub mod isolate;
pub mod props;
pub mod refmatch;
pub mod refrules;
pub mod rxgen;
pub mod viable;
