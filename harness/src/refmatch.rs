//! Reference matcher: an end-position-set matcher over the harness AST.  No regex crate, no wax
//! code.  Two modes give a three-valued verdict:
//!
//! * strict  — the documented language (README + property C01); a tree wildcard's run must lie on
//!   component boundaries of the path and consists of complete, non-empty components.
//! * lenient — additionally everything the documentation leaves open: empty components inside a
//!   tree wildcard's run, a leading separator swallowed by an unrooted leading `**/`, a bare
//!   trailing separator after a terminal `/**`, and tree wildcards that are not delimited in the
//!   expression (`a{**/b}`, `{a/**}b`).
//!
//! strict ⇒ MUST_ACCEPT, ¬lenient ⇒ MUST_REJECT, otherwise UNSPECIFIED.

use crate::ast::*;
use crate::gen::Tape;
use std::collections::BTreeSet;

type Set = BTreeSet<usize>;

#[derive(Clone, Copy, Debug, PartialEq, Eq, serde::Serialize, serde::Deserialize)]
pub enum Verdict {
    MustAccept,
    MustReject,
    Unspecified,
}

pub fn fold_eq(a: char, b: char) -> bool {
    if a == b {
        return true;
    }
    let one = |mut it: std::char::ToLowercase| {
        let c = it.next();
        if it.next().is_none() {
            c
        }
        else {
            None
        }
    };
    let oneu = |mut it: std::char::ToUppercase| {
        let c = it.next();
        if it.next().is_none() {
            c
        }
        else {
            None
        }
    };
    match (one(a.to_lowercase()), one(b.to_lowercase())) {
        (Some(x), Some(y)) if x == y => return true,
        _ => {},
    }
    match (oneu(a.to_uppercase()), oneu(b.to_uppercase())) {
        (Some(x), Some(y)) if x == y => true,
        _ => false,
    }
}

pub fn class_matches(neg: bool, items: &[Item], c: char) -> bool {
    if c == '/' {
        return false;
    }
    let inside = items.iter().any(|i| match i {
        Item::Ch(x) => *x == c,
        Item::Range(a, b) => *a <= c && c <= *b,
    });
    inside != neg
}

pub struct Matcher<'a> {
    pub path: &'a [char],
    pub lenient: bool,
    /// Optional constraints for the *top-level* concatenation: token index → forced (start,end).
    pub forced: Option<&'a [Option<(usize, usize)>]>,
    /// Optional constraints for the *top-level* concatenation by content: token index → the texts
    /// (any one of them) the token must consume, wherever that is
    pub forced_text: Option<&'a [Option<Vec<Vec<char>>>]>,
    /// deviations switched on by quirk models (see findings.rs)
    pub quirks: Quirks,
}

#[derive(Clone, Copy, Debug, Default)]
pub struct Quirks {
    /// F-ROOT-TREE: a rooted tree wildcard that begins the expression (through enclosing branches)
    /// and is followed by something matches `/` + anything + optional `/`
    pub root_tree: bool,
}

impl<'a> Matcher<'a> {
    pub fn new(path: &'a [char], lenient: bool) -> Self {
        Matcher { path, lenient, forced: None, forced_text: None, quirks: Quirks::default() }
    }

    pub fn is_match(&self, e: &Expr) -> bool {
        let mut s = Set::new();
        s.insert(0);
        self.seq(e, s, true, true, true).contains(&self.path.len())
    }

    fn boundary(&self, p: usize) -> bool {
        let n = self.path.len();
        p == 0 || p == n || self.path[p - 1] == '/' || self.path[p] == '/'
    }

    /// `outer_start` / `outer_end`: this concatenation begins at the very start / ends at the very
    /// end of the whole expression (through all enclosing branch tokens)
    fn seq(&self, toks: &[Tok], starts: Set, top: bool, outer_start: bool, outer_end: bool) -> Set {
        let mut cur = starts;
        let n = toks.len();
        for (i, t) in toks.iter().enumerate() {
            if cur.is_empty() {
                break;
            }
            let mut next = Set::new();
            let forced = if top { self.forced.and_then(|f| f.get(i).copied().flatten()) } else { None };
            let forced_text = if top { self.forced_text.and_then(|f| f.get(i)).and_then(|x| x.as_ref()) } else { None };
            for &p in &cur {
                if let Some(texts) = forced_text {
                    let ends = self.tok(toks, i, p, n, top, outer_start, outer_end);
                    for txt in texts {
                        let e = p + txt.len();
                        if e <= self.path.len() && self.path[p..e] == txt[..] && ends.contains(&e) {
                            next.insert(e);
                        }
                    }
                }
                else if let Some((s, e)) = forced {
                    if p != s {
                        continue;
                    }
                    if self.tok(toks, i, p, n, top, outer_start, outer_end).contains(&e) {
                        next.insert(e);
                    }
                }
                else {
                    next.extend(self.tok(toks, i, p, n, top, outer_start, outer_end));
                }
            }
            cur = next;
        }
        cur
    }

    #[allow(clippy::too_many_arguments)]
    fn tok(
        &self,
        toks: &[Tok],
        i: usize,
        p: usize,
        n: usize,
        top: bool,
        outer_start: bool,
        outer_end: bool,
    ) -> Set {
        let is_first = !toks[..i].iter().any(|t| !t.is_flag());
        let is_last = !toks[i + 1..n].iter().any(|t| !t.is_flag());
        let at_start = outer_start && is_first;
        let at_end = outer_end && is_last;
        let path = self.path;
        let len = path.len();
        let mut out = Set::new();
        match &toks[i] {
            Tok::Flag(_) => {
                out.insert(p);
            },
            Tok::Lit { text, ci } => {
                let mut q = p;
                for c in text.chars() {
                    if q >= len {
                        return out;
                    }
                    let ok = if *ci { fold_eq(c, path[q]) } else { c == path[q] };
                    if !ok {
                        return out;
                    }
                    q += 1;
                }
                out.insert(q);
            },
            Tok::Sep => {
                if p < len && path[p] == '/' {
                    out.insert(p + 1);
                }
            },
            Tok::One => {
                if p < len && path[p] != '/' {
                    out.insert(p + 1);
                }
            },
            Tok::Zom { .. } => {
                let mut q = p;
                out.insert(q);
                while q < len && path[q] != '/' {
                    q += 1;
                    out.insert(q);
                }
            },
            Tok::Class { neg, items } => {
                // A class with a range written backwards (`[b-a]`) is not defined by the
                // documentation: strictly it matches nothing, leniently any one character.
                let backwards = items.iter().any(|i| matches!(i, Item::Range(a, b) if a > b));
                let ok = p < len
                    && if backwards {
                        self.lenient && path[p] != '/'
                    }
                    else {
                        class_matches(*neg, items, path[p])
                    };
                if ok {
                    out.insert(p + 1);
                }
            },
            Tok::Alt(bs) => {
                for b in bs {
                    let mut s = Set::new();
                    s.insert(p);
                    out.extend(self.seq(b, s, false, at_start, at_end));
                }
            },
            Tok::Rep { body, lo, hi, .. } => {
                let cap = hi.unwrap_or(usize::MAX).min(lo + (len - p) + 2);
                let mut frontier = Set::new();
                frontier.insert(p);
                if *lo == 0 {
                    out.insert(p);
                }
                let mut k = 0;
                let mut seen = Set::new();
                while k < cap && !frontier.is_empty() {
                    k += 1;
                    // an iteration that ends the repetition may end the expression; one that is
                    // followed by another iteration does not
                    // (under the quirk model every iteration of a repetition that begins the
                    // expression is encoded alike)
                    let body_start = at_start && (k == 1 || self.quirks.root_tree);
                    let fin = if k >= *lo && at_end {
                        Some(self.seq(body, frontier.clone(), false, body_start, true))
                    }
                    else {
                        None
                    };
                    frontier = self.seq(body, frontier, false, body_start, false);
                    if k >= *lo {
                        let before = seen.len();
                        seen.extend(frontier.iter().copied());
                        out.extend(frontier.iter().copied());
                        if let Some(f) = fin {
                            out.extend(f);
                        }
                        if seen.len() == before && hi.is_none() {
                            break;
                        }
                    }
                }
            },
            Tok::Tree { lead, .. } => {
                let has_right = !is_last;
                let first = is_first;
                let lead = *lead;
                // (wax uses the deviating encoding only where the concatenation begins the whole
                // expression — through all enclosing branches —, not for a rooted tree that is first
                // in a branch further to the right)
                if self.quirks.root_tree && lead && first && has_right && at_start {
                    // `/` + anything + optional `/`
                    if p < len && path[p] == '/' {
                        for q in p + 1..=len {
                            out.insert(q);
                        }
                    }
                    return out;
                }
                if self.lenient {
                    match (has_right, lead) {
                        (true, true) => {
                            if p < len && path[p] == '/' {
                                out.insert(p + 1);
                                for q in p + 2..=len {
                                    if path[q - 1] == '/' {
                                        out.insert(q);
                                    }
                                }
                            }
                        },
                        (true, false) => {
                            out.insert(p);
                            for q in p + 1..=len {
                                if path[q - 1] == '/' {
                                    out.insert(q);
                                }
                            }
                        },
                        (false, true) => {
                            out.insert(p);
                            if p < len && path[p] == '/' {
                                for q in p + 1..=len {
                                    out.insert(q);
                                }
                            }
                        },
                        (false, false) => {
                            for q in p..=len {
                                out.insert(q);
                            }
                        },
                    }
                    return out;
                }
                // strict: the wildcard must be delimited in the expression (own separators or the
                // ends of the whole expression) and its run must lie on component boundaries
                if (!lead && !at_start) || (!has_right && !at_end) {
                    return out;
                }
                if !self.boundary(p) {
                    return out;
                }
                let comp_end = |from: usize| -> Option<usize> {
                    let mut q = from;
                    while q < len && path[q] != '/' {
                        q += 1;
                    }
                    if q > from {
                        Some(q)
                    }
                    else {
                        None
                    }
                };
                let mut cands = Set::new();
                if has_right {
                    let mut cur = p;
                    if lead {
                        if !(p < len && path[p] == '/') {
                            return out;
                        }
                        cur = p + 1;
                    }
                    cands.insert(cur);
                    // (C/)*
                    while let Some(q) = comp_end(cur) {
                        if q < len && path[q] == '/' {
                            cur = q + 1;
                            cands.insert(cur);
                        }
                        else {
                            break;
                        }
                    }
                }
                else if lead {
                    // (/C)*   — and, at the very start of the whole expression, the root itself
                    let mut cur = p;
                    cands.insert(cur);
                    if at_start && p == 0 && len >= 1 && path[0] == '/' {
                        cands.insert(1);
                    }
                    while cur < len && path[cur] == '/' {
                        match comp_end(cur + 1) {
                            Some(q) => {
                                cur = q;
                                cands.insert(cur);
                            },
                            None => break,
                        }
                    }
                    if at_start && p == 0 {
                        // rooted: the empty run is not a rooted path
                        cands.remove(&0);
                    }
                }
                else {
                    // (C(/C)*)?
                    let mut cur = p;
                    cands.insert(cur);
                    if let Some(q) = comp_end(cur) {
                        cur = q;
                        cands.insert(cur);
                        while cur < len && path[cur] == '/' {
                            match comp_end(cur + 1) {
                                Some(q) => {
                                    cur = q;
                                    cands.insert(cur);
                                },
                                None => break,
                            }
                        }
                    }
                }
                for q in cands {
                    if self.boundary(q) {
                        out.insert(q);
                    }
                }
            },
        }
        out
    }
}

pub fn to_chars(s: &str) -> Vec<char> {
    s.chars().collect()
}

/// three-valued verdict; `e` may contain Flag noise (ignored)
pub fn verdict(e: &Expr, path: &str) -> Verdict {
    let cs = to_chars(path);
    if Matcher::new(&cs, false).is_match(e) {
        Verdict::MustAccept
    }
    else if !Matcher::new(&cs, true).is_match(e) {
        Verdict::MustReject
    }
    else {
        Verdict::Unspecified
    }
}

pub fn lenient_match_with(e: &Expr, path: &str, quirks: Quirks) -> bool {
    let cs = to_chars(path);
    let mut m = Matcher::new(&cs, true);
    m.quirks = quirks;
    m.is_match(e)
}

// ------------------------------------------------------------------------------------------------
// witnesses: strings of the strict language, produced by a random walk through the AST

const WCHARS: &[char] = &['a', 'b', 'A', 'x', '.', '0', 'é', '字', ' ', '-', '\n'];

fn w_component(t: &mut Tape) -> String {
    let n = 1 + t.weighted(&[60, 30, 10]);
    (0..n).map(|_| t.pick(WCHARS)).collect()
}

fn flip(c: char) -> char {
    for cand in c.to_uppercase().chain(c.to_lowercase()) {
        if cand != c && fold_eq(cand, c) {
            return cand;
        }
    }
    c
}

/// `mode`: 0 random, 1 minimal (fewest iterations / components), 2 maximal-ish
pub fn witness(e: &Expr, t: &mut Tape, mode: u8) -> Option<String> {
    let mut out = String::new();
    if w_seq(e, t, mode, &mut out) {
        Some(out)
    }
    else {
        None
    }
}

fn w_seq(toks: &[Tok], t: &mut Tape, mode: u8, out: &mut String) -> bool {
    let n = toks.len();
    for i in 0..n {
        match &toks[i] {
            Tok::Flag(_) => {},
            Tok::Lit { text, ci } => {
                for c in text.chars() {
                    if *ci && t.chance(100) {
                        out.push(flip(c));
                    }
                    else {
                        out.push(c);
                    }
                }
            },
            Tok::Sep => out.push('/'),
            Tok::One => out.push(t.pick(WCHARS)),
            Tok::Zom { .. } => {
                let k = match mode {
                    1 => 0,
                    2 => 2,
                    _ => t.weighted(&[35, 40, 25]),
                };
                for _ in 0..k {
                    out.push(t.pick(WCHARS));
                }
            },
            Tok::Class { neg, items } => {
                let mut pool: Vec<char> = Vec::new();
                if *neg {
                    for c in WCHARS {
                        if class_matches(true, items, *c) {
                            pool.push(*c);
                        }
                    }
                }
                else {
                    for it in items {
                        match it {
                            Item::Ch(c) => pool.push(*c),
                            Item::Range(a, b) => {
                                pool.push(*a);
                                pool.push(*b);
                            },
                        }
                    }
                    pool.retain(|c| *c != '/');
                }
                if pool.is_empty() {
                    return false;
                }
                out.push(t.pick(&pool));
            },
            Tok::Alt(bs) => {
                let k = t.below(bs.len());
                if !w_seq(&bs[k], t, mode, out) {
                    return false;
                }
            },
            Tok::Rep { body, lo, hi, .. } => {
                let max = hi.unwrap_or(lo + 2).min(lo + 2).max(*lo);
                let k = match mode {
                    1 => *lo,
                    2 => max,
                    _ => lo + t.below(max - lo + 1),
                };
                for _ in 0..k {
                    if !w_seq(body, t, mode, out) {
                        return false;
                    }
                }
            },
            Tok::Tree { lead, .. } => {
                let has_right = toks[i + 1..n].iter().any(|t| !t.is_flag());
                let k = match mode {
                    1 => 0,
                    2 => 2,
                    _ => t.weighted(&[30, 35, 25, 10]),
                };
                if has_right {
                    if *lead {
                        out.push('/');
                    }
                    for _ in 0..k {
                        out.push_str(&w_component(t));
                        out.push('/');
                    }
                }
                else if *lead {
                    if k == 0 && out.is_empty() {
                        out.push('/');
                    }
                    for _ in 0..k {
                        out.push('/');
                        out.push_str(&w_component(t));
                    }
                }
                else {
                    for j in 0..k {
                        if j > 0 {
                            out.push('/');
                        }
                        out.push_str(&w_component(t));
                    }
                }
            },
        }
    }
    true
}
