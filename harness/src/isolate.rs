//! Crash isolation: the harness re-executes itself as a worker (`waxverif worker <kind>`), sends
//! one case per line over a pipe and reads one result line back.  A worker that dies (stack
//! overflow, abort, OOM kill, watchdog alarm) is observed as such and respawned; the case that
//! killed it is known exactly because requests are strictly one at a time.

use std::io::{BufRead, BufReader, Write};
use std::os::unix::process::{CommandExt, ExitStatusExt};
use std::process::{Child, ChildStdin, ChildStdout, Command, Stdio};

pub struct Worker {
    child: Child,
    stdin: ChildStdin,
    stdout: BufReader<ChildStdout>,
}

#[derive(Debug, Clone)]
pub enum Death {
    Signal(i32),
    Exit(i32),
    Io(String),
}

impl Worker {
    pub fn spawn(kind: &str, drop_to_nobody: bool) -> std::io::Result<Worker> {
        let exe = std::env::current_exe()?;
        let mut cmd = Command::new(exe);
        cmd.arg("worker").arg(kind).stdin(Stdio::piped()).stdout(Stdio::piped()).stderr(Stdio::null());
        cmd.env_remove("RUST_BACKTRACE");
        if drop_to_nobody && unsafe { libc::geteuid() } == 0 {
            cmd.uid(65534).gid(65534);
            unsafe {
                cmd.pre_exec(|| {
                    libc::setgroups(0, std::ptr::null());
                    Ok(())
                });
            }
        }
        let mut child = cmd.spawn()?;
        let stdin = child.stdin.take().unwrap();
        let stdout = BufReader::new(child.stdout.take().unwrap());
        Ok(Worker { child, stdin, stdout })
    }

    pub fn request(&mut self, line: &str) -> Result<String, Death> {
        debug_assert!(!line.contains('\n'));
        if self.stdin.write_all(line.as_bytes()).is_err() || self.stdin.write_all(b"\n").is_err() || self.stdin.flush().is_err() {
            return Err(self.death());
        }
        let mut out = String::new();
        match self.stdout.read_line(&mut out) {
            Ok(0) | Err(_) => Err(self.death()),
            Ok(_) => Ok(out.trim_end().to_string()),
        }
    }

    fn death(&mut self) -> Death {
        match self.child.wait() {
            Ok(st) => {
                if let Some(s) = st.signal() {
                    Death::Signal(s)
                }
                else {
                    Death::Exit(st.code().unwrap_or(-1))
                }
            },
            Err(e) => Death::Io(e.to_string()),
        }
    }
}

impl Drop for Worker {
    fn drop(&mut self) {
        let _ = self.child.kill();
        let _ = self.child.wait();
    }
}

/// worker side: read request lines, answer each with one line
pub fn serve(mut f: impl FnMut(&str) -> String, watchdog_s: u32) {
    // keep a runaway case from exhausting the machine: 12 GiB of address space per worker
    unsafe {
        let lim = libc::rlimit { rlim_cur: 12 << 30, rlim_max: 12 << 30 };
        libc::setrlimit(libc::RLIMIT_AS, &lim);
    }
    let stdin = std::io::stdin();
    let stdout = std::io::stdout();
    let mut line = String::new();
    loop {
        line.clear();
        match stdin.lock().read_line(&mut line) {
            Ok(0) | Err(_) => return,
            Ok(_) => {},
        }
        unsafe {
            libc::alarm(watchdog_s);
        }
        let answer = f(line.trim_end_matches('\n'));
        unsafe {
            libc::alarm(0);
        }
        let mut o = stdout.lock();
        let _ = o.write_all(answer.replace('\n', " ").as_bytes());
        let _ = o.write_all(b"\n");
        let _ = o.flush();
    }
}
