//! File-system model: generated directory trees, materialisation in a scratch directory, and an
//! independent reference traversal (std::fs::read_dir only — no walkdir, no wax).

use crate::gen::Tape;
use serde::{Deserialize, Serialize};
use std::collections::BTreeMap;
use std::os::unix::fs::{MetadataExt, PermissionsExt};
use std::path::{Path, PathBuf};
use std::sync::atomic::{AtomicUsize, Ordering};

#[derive(Serialize, Deserialize, Clone, Debug, PartialEq, Eq)]
pub enum Kind {
    Dir,
    File,
    /// symbolic link to another node of the tree (path relative to the tree root; "" = the root)
    Link(String),
    /// symbolic link whose target does not exist
    Dangling,
}

#[derive(Serialize, Deserialize, Clone, Debug, PartialEq, Eq)]
pub struct Node {
    /// path relative to the tree root, `/`-separated, parents before children
    pub path: String,
    pub kind: Kind,
    /// directory made unreadable (chmod 000) after the tree has been built
    pub unreadable: bool,
}

#[derive(Serialize, Deserialize, Clone, Debug, Default, PartialEq, Eq)]
pub struct TreeSpec {
    pub nodes: Vec<Node>,
}

pub const NAMES: &[&str] = &[
    "a", "b", "c", "ab", "a.b", ".a", ".git", "A", "é", "*", "[a]", "{a}", "a,b", "-", "aa", "x.rs", "b.rs", "a b", "..a", "字", "a\nb", "a|b", "a\\b", "𐐨", "𐐀b", "e\u{301}",
];

#[derive(Clone, Debug)]
pub struct TreeCfg {
    pub links: bool,
    pub unreadable: bool,
    pub max_levels: usize,
    pub max_entries: usize,
    /// some regular files get a name that is not valid UTF-8 (spelled with `RAW` in the spec)
    pub non_utf8: bool,
}

/// stands for the byte 0xFF (never valid in UTF-8) in the path of a `File` node
pub const RAW: char = '\u{F8FF}';
pub const RAW_NAMES: &[&str] = &["\u{F8FF}", "a\u{F8FF}.rs", "\u{F8FF}b", "é\u{F8FF}"];

/// `root` joined with a spec path, `RAW` replaced by the byte 0xFF
pub fn os_join(root: &Path, rel: &str) -> PathBuf {
    use std::os::unix::ffi::OsStringExt;
    let mut bytes: Vec<u8> = Vec::new();
    for c in rel.chars() {
        if c == RAW {
            bytes.push(0xFF);
        }
        else {
            let mut b = [0u8; 4];
            bytes.extend_from_slice(c.encode_utf8(&mut b).as_bytes());
        }
    }
    if bytes.is_empty() {
        root.to_path_buf()
    }
    else {
        root.join(std::ffi::OsString::from_vec(bytes))
    }
}

impl Default for TreeCfg {
    fn default() -> Self {
        TreeCfg { links: false, unreadable: false, max_levels: 4, max_entries: 24, non_utf8: false }
    }
}

pub fn gen_tree(t: &mut Tape, cfg: &TreeCfg) -> TreeSpec {
    #[derive(Clone)]
    enum Pre {
        Dir,
        File,
        LinkFile,
        LinkDir,
        Dangling,
        Ancestor(usize),
    }
    let mut pre: Vec<(String, Pre, bool)> = Vec::new();
    fn go(t: &mut Tape, cfg: &TreeCfg, dir: &str, level: usize, pre: &mut Vec<(String, Pre, bool)>) {
        let n = if level == 0 { 1 + t.weighted(&[10, 25, 30, 20, 15]) } else { t.weighted(&[15, 30, 30, 15, 10]) };
        let mut used: Vec<&str> = Vec::new();
        for _ in 0..n {
            if pre.len() >= cfg.max_entries {
                return;
            }
            let raw = cfg.non_utf8 && t.chance(24);
            let name = if raw { t.pick(RAW_NAMES) } else { t.pick(NAMES) };
            if used.contains(&name) {
                continue;
            }
            used.push(name);
            if raw {
                // only regular files get such names (nothing else addresses them by their spelling)
                let path = if dir.is_empty() { name.to_string() } else { format!("{}/{}", dir, name) };
                pre.push((path, Pre::File, false));
                continue;
            }
            let path = if dir.is_empty() { name.to_string() } else { format!("{}/{}", dir, name) };
            let k = t.weighted(&[45, if level + 1 < cfg.max_levels { 40 } else { 0 }, if cfg.links { 18 } else { 0 }]);
            match k {
                0 => pre.push((path, Pre::File, false)),
                1 => {
                    let unreadable = cfg.unreadable && t.chance(50);
                    pre.push((path.clone(), Pre::Dir, unreadable));
                    go(t, cfg, &path, level + 1, pre);
                },
                _ => {
                    let lk = match t.weighted(&[25, 35, 15, 25]) {
                        0 => Pre::LinkFile,
                        1 => Pre::LinkDir,
                        2 => Pre::Dangling,
                        _ => Pre::Ancestor(t.below(3)),
                    };
                    pre.push((path, lk, false));
                },
            }
        }
    }
    go(t, cfg, "", 0, &mut pre);
    let files: Vec<String> = pre.iter().filter(|p| matches!(p.1, Pre::File)).map(|p| p.0.clone()).collect();
    let dirs: Vec<String> = pre.iter().filter(|p| matches!(p.1, Pre::Dir)).map(|p| p.0.clone()).collect();
    let mut nodes = Vec::new();
    for (path, k, unreadable) in pre {
        let parent = path.rsplit_once('/').map(|x| x.0.to_string()).unwrap_or_default();
        let kind = match k {
            Pre::Dir => Kind::Dir,
            Pre::File => Kind::File,
            Pre::Dangling => Kind::Dangling,
            Pre::LinkFile => {
                if files.is_empty() {
                    Kind::Dangling
                }
                else {
                    Kind::Link(t.pick(&files))
                }
            },
            Pre::LinkDir => {
                // a directory that is not an ancestor of the link
                let cands: Vec<&String> =
                    dirs.iter().filter(|d| !(parent == **d || parent.starts_with(&format!("{}/", d)))).collect();
                if cands.is_empty() {
                    Kind::Dangling
                }
                else {
                    Kind::Link(t.pick(&cands).clone())
                }
            },
            Pre::Ancestor(k) => {
                let mut cur = parent.clone();
                for _ in 0..k {
                    cur = cur.rsplit_once('/').map(|x| x.0.to_string()).unwrap_or_default();
                }
                Kind::Link(cur)
            },
        };
        nodes.push(Node { path, kind, unreadable });
    }
    TreeSpec { nodes }
}

static COUNTER: AtomicUsize = AtomicUsize::new(0);

/// A materialised tree; removed on drop.
pub struct Scratch {
    pub top: PathBuf,
    /// the tree root: `<top>/r/t` (two levels so that parent-escaping globs stay inside `top`)
    pub root: PathBuf,
    unreadable: Vec<PathBuf>,
}

impl Scratch {
    pub fn create(spec: &TreeSpec) -> std::io::Result<Scratch> {
        let n = COUNTER.fetch_add(1, Ordering::SeqCst);
        // The name must never coincide with a directory left behind by an earlier process that was
        // killed (process ids are reused, and a leftover owned by another user cannot be removed):
        // besides the process id and a counter it carries the time this process first needed one.
        // (Only a name: no oracle looks at it.)
        static STARTED: std::sync::OnceLock<u128> = std::sync::OnceLock::new();
        let started = *STARTED.get_or_init(|| std::time::SystemTime::now().duration_since(std::time::UNIX_EPOCH).map(|d| d.as_nanos()).unwrap_or(0));
        let top = std::env::temp_dir().join(format!("waxverif-{}-{:x}-{}", std::process::id(), started & 0xffff_ffff_ffff, n));
        if top.exists() {
            let _ = std::fs::remove_dir_all(&top);
            if top.exists() {
                return Err(std::io::Error::new(std::io::ErrorKind::AlreadyExists, "stale scratch directory that cannot be removed"));
            }
        }
        std::fs::create_dir_all(&top)?;
        let _ = std::fs::set_permissions(&top, std::fs::Permissions::from_mode(0o777));
        let root = top.join("r").join("t");
        std::fs::create_dir_all(&root)?;
        // a sibling of the tree root, reachable through `..`
        std::fs::create_dir_all(top.join("r").join("s"))?;
        std::fs::write(top.join("r").join("s").join("a"), b"")?;
        std::fs::write(top.join("r").join("u"), b"")?;
        let mut s = Scratch { top, root: root.clone(), unreadable: Vec::new() };
        for node in &spec.nodes {
            let p = os_join(&root, &node.path);
            match &node.kind {
                Kind::Dir => std::fs::create_dir(&p)?,
                Kind::File => std::fs::write(&p, b"x")?,
                _ => {},
            }
        }
        for node in &spec.nodes {
            let p = root.join(&node.path);
            match &node.kind {
                Kind::Link(target) => {
                    let tp = if target.is_empty() { root.clone() } else { root.join(target) };
                    std::os::unix::fs::symlink(tp, &p)?;
                },
                Kind::Dangling => std::os::unix::fs::symlink(root.join("no-such-target-\u{1}"), &p)?,
                _ => {},
            }
        }
        for node in spec.nodes.iter().rev() {
            if node.unreadable && node.kind == Kind::Dir {
                let p = root.join(&node.path);
                std::fs::set_permissions(&p, std::fs::Permissions::from_mode(0o000))?;
                s.unreadable.push(p);
            }
        }
        Ok(s)
    }

    pub fn make_unreadable(&mut self, rel: &str) -> std::io::Result<()> {
        let p = if rel.is_empty() { self.root.clone() } else { self.root.join(rel) };
        std::fs::set_permissions(&p, std::fs::Permissions::from_mode(0o000))?;
        self.unreadable.push(p);
        Ok(())
    }
}

impl Drop for Scratch {
    fn drop(&mut self) {
        for p in self.unreadable.iter() {
            let _ = std::fs::set_permissions(p, std::fs::Permissions::from_mode(0o755));
        }
        if std::fs::remove_dir_all(&self.top).is_err() {
            // a check that returned early may have left directories unreadable that are not in
            // the list: open every real directory (links are not followed), then remove
            fn open_up(p: &Path) {
                if let Ok(m) = std::fs::symlink_metadata(p) {
                    if m.is_dir() {
                        let _ = std::fs::set_permissions(p, std::fs::Permissions::from_mode(0o755));
                        if let Ok(rd) = std::fs::read_dir(p) {
                            for e in rd.flatten() {
                                open_up(&e.path());
                            }
                        }
                    }
                }
            }
            open_up(&self.top);
            let _ = std::fs::remove_dir_all(&self.top);
        }
    }
}

// ------------------------------------------------------------------------------------------------
// reference traversal

#[derive(Clone, Debug, PartialEq, Eq, PartialOrd, Ord)]
pub enum RefItem {
    /// (path below the start, `/`-joined; "" = the start itself), is_dir (per link policy),
    /// is_symlink (as yielded), depth
    Entry { rel: String, is_dir: bool, is_link: bool, depth: usize },
    /// one error naming this path
    Error { rel: String, what: &'static str },
}

impl RefItem {
    pub fn rel(&self) -> &str {
        match self {
            RefItem::Entry { rel, .. } | RefItem::Error { rel, .. } => rel,
        }
    }
}

fn join_rel(a: &str, b: &str) -> String {
    if a.is_empty() {
        b.to_string()
    }
    else {
        format!("{}/{}", a, b)
    }
}

/// Independent reference walk with an explicit link policy and fault policy.
///
/// * `follow == false`: links are leaves (never descended, `is_link = true`)
/// * `follow == true`: a link to a file is a file entry, a link to a directory is descended under
///   the link's own path; a link whose target is the same file as a directory on the current
///   traversal path (the start or any directory entered on the way down) is one error and no
///   entry; a dangling link is one error and no entry
/// * an unreadable directory is listed itself, produces one error and no children
pub fn ref_walk(start: &Path, follow: bool) -> Vec<RefItem> {
    let mut out = Vec::new();
    let md = match if follow { std::fs::metadata(start) } else { std::fs::symlink_metadata(start) } {
        Ok(m) => m,
        Err(_) => {
            out.push(RefItem::Error { rel: String::new(), what: "missing start" });
            return out;
        },
    };
    let is_dir = std::fs::metadata(start).map(|m| m.is_dir()).unwrap_or(false);
    out.push(RefItem::Entry { rel: String::new(), is_dir, is_link: false, depth: 0 });
    if is_dir {
        let id = std::fs::metadata(start).map(|m| (m.dev(), m.ino())).unwrap_or((md.dev(), md.ino()));
        let mut stack = vec![id];
        descend(start, "", 1, follow, &mut stack, &mut out);
    }
    out
}

fn descend(dir: &Path, rel: &str, depth: usize, follow: bool, stack: &mut Vec<(u64, u64)>, out: &mut Vec<RefItem>) {
    let rd = match std::fs::read_dir(dir) {
        Ok(rd) => rd,
        Err(_) => {
            out.push(RefItem::Error { rel: rel.to_string(), what: "unreadable directory" });
            return;
        },
    };
    let mut names: Vec<std::ffi::OsString> = rd.flatten().map(|e| e.file_name()).collect();
    names.sort();
    for name in names {
        let name_s = name.to_string_lossy().to_string();
        let p = dir.join(&name);
        let r = join_rel(rel, &name_s);
        let lmd = match std::fs::symlink_metadata(&p) {
            Ok(m) => m,
            Err(_) => {
                out.push(RefItem::Error { rel: r, what: "stat failed" });
                continue;
            },
        };
        if lmd.file_type().is_symlink() {
            if !follow {
                out.push(RefItem::Entry { rel: r, is_dir: false, is_link: true, depth });
                continue;
            }
            match std::fs::metadata(&p) {
                Err(_) => {
                    out.push(RefItem::Error { rel: r, what: "dangling link" });
                },
                Ok(tmd) => {
                    if tmd.is_dir() {
                        let id = (tmd.dev(), tmd.ino());
                        if stack.contains(&id) {
                            out.push(RefItem::Error { rel: r, what: "link re-enters an ancestor" });
                            continue;
                        }
                        out.push(RefItem::Entry { rel: r.clone(), is_dir: true, is_link: false, depth });
                        stack.push(id);
                        descend(&p, &r, depth + 1, follow, stack, out);
                        stack.pop();
                    }
                    else {
                        out.push(RefItem::Entry { rel: r, is_dir: false, is_link: false, depth });
                    }
                },
            }
        }
        else if lmd.is_dir() {
            out.push(RefItem::Entry { rel: r.clone(), is_dir: true, is_link: false, depth });
            stack.push((lmd.dev(), lmd.ino()));
            descend(&p, &r, depth + 1, follow, stack, out);
            stack.pop();
        }
        else {
            out.push(RefItem::Entry { rel: r, is_dir: false, is_link: false, depth });
        }
    }
}

/// relative spelling of `target` as seen from the current working directory (no chdir needed)
pub fn relative_from_cwd(target: &Path) -> Option<PathBuf> {
    let cwd = std::env::current_dir().ok()?;
    let mut up = PathBuf::new();
    for _ in cwd.components().skip(1) {
        up.push("..");
    }
    let rest: PathBuf = target.components().skip(1).collect();
    Some(up.join(rest))
}

/// multiset of strings
pub fn multiset<I: IntoIterator<Item = String>>(it: I) -> BTreeMap<String, usize> {
    let mut m = BTreeMap::new();
    for s in it {
        *m.entry(s).or_insert(0) += 1;
    }
    m
}
