#!/usr/bin/env python3
"""Operator-level mutation analysis of /repo/src against the registered quick checks.

usage: tools/mutate.py <slots> <count> [seed] [skip]   (runs <count> mutants, after skipping <skip> of the
shuffled candidate list, spread over <slots> workers)

For every sampled mutant (one token-level change on one line of non-test source):
  1. apply it in a scratch worktree of /repo HEAD (/tmp/waxmut-<slot>), `cargo build --offline`
     (discarded if it does not compile),
  2. run the unedited test suite (discarded as *killed by the suite* if any test fails),
  3. build the harness against the worktree (cargo `paths` override, own target directory) and run
     all twenty quick checks with a scratch VERIF_ROOT; record which checks report a VIOLATION.
Results: one JSON line per mutant in /tmp/waxmut-results.jsonl (nothing is written to /verif or
/repo). Survivors (suite green, every check silent) are what to read: equivalent mutant, or a gap.
Worktrees and target directories are removed at the end.
"""
import json, os, random, re, subprocess, sys, threading, time

REPO = "/repo"
FILES = [
    "src/encode.rs", "src/rule.rs", "src/capture.rs", "src/filter.rs", "src/lib.rs", "src/query.rs",
    "src/diagnostics/mod.rs", "src/token/mod.rs", "src/token/parse.rs", "src/token/walk.rs",
    "src/token/variance/mod.rs", "src/token/variance/natural.rs", "src/token/variance/ops.rs",
    "src/token/variance/invariant/mod.rs", "src/token/variance/invariant/term.rs",
    "src/token/variance/invariant/text.rs", "src/walk/mod.rs", "src/walk/glob.rs", "src/walk/behavior.rs",
]
OPS = [
    (r" == ", " != "), (r" != ", " == "), (r" <= ", " < "), (r" >= ", " > "), (r" < ", " <= "), (r" > ", " >= "),
    (r" && ", " || "), (r" \|\| ", " && "), (r"\btrue\b", "false"), (r"\bfalse\b", "true"),
    (r"if !", "if "), (r"\.min\(", ".max("), (r"\.max\(", ".min("), (r" \+ 1\b", " + 0"), (r" - 1\b", " - 0"),
    (r"saturating_sub\(1\)", "saturating_sub(0)"), (r"filter_tree\(cancellation\)", "filter_node()"),
    (r"\bFirst\b", "Last"), (r"\bLast\b", "First"), (r"\bMiddle\b", "Only"), (r"\.skip\(1\)", ".skip(0)"),
    (r"\.is_some\(\)", ".is_none()"), (r"\.is_none\(\)", ".is_some()"), (r"\bany\(", "all("), (r"\ball\(", "any("),
    (r"\.pop_front\(\)", ".pop_back()"), (r"\.first\(\)", ".last()"), (r"\.last\(\)", ".first()"),
    (r"\bOpen\b", "Closed"), (r"Some\(0\)", "Some(1)"), (r"\.rev\(\)", ""), (r"\bAlways\b", "Never"), (r"\bNever\b", "Always"),
    (r"\bUnbounded\b", "Bounded(1)"), (r"is_unbounded\(\)", "is_bounded()"), (r"\.lower\(\)", ".upper()"),
]


def candidates():
    out = []
    for f in FILES:
        lines = open(os.path.join(REPO, f)).read().split("\n")
        in_hook = False
        for i, line in enumerate(lines):
            if line.startswith("#[cfg(test)]"):
                break  # test module at the end of the file
            if "olson_sean_k_wax_verif" in line:
                in_hook = True
            if in_hook and line.startswith("}"):
                in_hook = False
                continue
            s = line.strip()
            if in_hook or s.startswith("//") or s.startswith("#[") or s.startswith("use ") or "unreachable!" in s:
                continue
            for k, (pat, rep) in enumerate(OPS):
                for m in re.finditer(pat, line):
                    out.append((f, i, k, m.start(), m.end()))
    return out


def sh(cmd, cwd=None, env=None, timeout=3000):
    e = dict(os.environ)
    e["CARGO_NET_OFFLINE"] = "true"
    if env:
        e.update(env)
    try:
        p = subprocess.run(cmd, shell=True, cwd=cwd, env=e, capture_output=True, text=True, timeout=timeout)
        return p.returncode, p.stdout + p.stderr
    except subprocess.TimeoutExpired:
        return 124, "timeout"


def worker(slot, jobs, lock, results):
    wt = f"/tmp/waxmut-{slot}"
    tgt = f"/tmp/waxmut-target-{slot}"
    htgt = f"/tmp/waxmut-htarget-{slot}"
    vroot = f"/tmp/waxmut-root-{slot}"
    sh(f"git -C {REPO} worktree remove --force {wt}; rm -rf {wt}; git -C {REPO} worktree add -q --detach {wt} HEAD")
    while True:
        with lock:
            if not jobs:
                break
            (f, i, k, a, b) = jobs.pop()
        sh("git checkout -q -- .", cwd=wt)
        path = os.path.join(wt, f)
        lines = open(path).read().split("\n")
        pat, rep = OPS[k]
        orig = lines[i]
        lines[i] = orig[:a] + re.sub(pat, rep, orig[a:b], count=1) + orig[b:]
        if lines[i] == orig:
            continue
        open(path, "w").write("\n".join(lines))
        rec = {"file": f, "line": i + 1, "from": orig.strip(), "to": lines[i].strip()}
        code, out = sh("cargo build --offline", cwd=wt, env={"CARGO_TARGET_DIR": tgt})
        if code != 0:
            rec["status"] = "does_not_compile"
        else:
            code, out = sh("cargo nextest run --workspace --no-fail-fast --offline", cwd=wt, env={"CARGO_TARGET_DIR": tgt}, timeout=900)
            if code != 0:
                rec["status"] = "killed_by_suite"
            else:
                code, out = sh(f"cargo build --release --offline --config 'paths=[\"{wt}\"]' --target-dir {htgt}", cwd="/verif/harness")
                if code != 0:
                    rec["status"] = "harness_build_failed"
                else:
                    sh(f"rm -rf {vroot}; mkdir -p {vroot}; cp /verif/known_findings.json {vroot}/; cp -r /verif/replays {vroot}/; chmod -R a+rX {vroot} {htgt}/release/waxverif; chmod a+rx /tmp {htgt} {htgt}/release")
                    caught, infra = [], []
                    for n in range(1, 21):
                        cid = "C%02d" % n
                        code, out = sh(f"{htgt}/release/waxverif {cid} --tier quick", cwd="/verif", env={"VERIF_ROOT": vroot, "RUST_BACKTRACE": "0"})
                        if code == 1 and "VIOLATION" in out:
                            caught.append(cid)
                        elif code != 0:
                            infra.append(f"{cid}:{code}")
                    rec["status"] = "caught" if caught else ("infra_only" if infra else "SURVIVED")
                    rec["caught_by"] = caught
                    rec["infra"] = infra
        with lock:
            results.append(rec)
            with open("/tmp/waxmut-results.jsonl", "a") as fh:
                fh.write(json.dumps(rec) + "\n")
    sh(f"git -C {REPO} worktree remove --force {wt}; rm -rf {wt} {tgt} {htgt} {vroot}")


def main():
    slots = int(sys.argv[1])
    count = int(sys.argv[2])
    seed = int(sys.argv[3]) if len(sys.argv) > 3 else 1
    skip = int(sys.argv[4]) if len(sys.argv) > 4 else 0
    cands = candidates()
    random.Random(seed).shuffle(cands)
    jobs = cands[skip:skip + count]
    print(f"{len(cands)} candidate mutations, running {len(jobs)} on {slots} slots", flush=True)
    lock = threading.Lock()
    results = []
    ts = [threading.Thread(target=worker, args=(s, jobs, lock, results)) for s in range(slots)]
    for t in ts:
        t.start()
    for t in ts:
        t.join()
    by = {}
    for r in results:
        by[r["status"]] = by.get(r["status"], 0) + 1
    print(json.dumps(by))
    for r in results:
        if r["status"] in ("SURVIVED", "infra_only"):
            print(r["status"], r["file"], r["line"], "|", r["from"], "=>", r["to"], r.get("infra"))


if __name__ == "__main__":
    main()
