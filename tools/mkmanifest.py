#!/usr/bin/env python3
"""Regenerates /verif/MANIFEST.json from the table below (kept in one place so that the manifest
stays valid while checks are added)."""
import json, os, sys
ROOT = os.path.dirname(os.path.dirname(os.path.abspath(__file__)))

IDS = ["C%02d" % i for i in range(1, 21)]

# id -> (technique, level category, level text, level note, design ref)
CHECKS = {}
def add(i, technique, text, note, cat="exploration"):
    CHECKS[i] = dict(technique=technique, text=text, note=note, cat=cat)

exec(open(os.path.join(ROOT, "tools", "checks_table.py")).read())

PENDING_REASON = "check not built yet in this revision of /verif (work in progress; the design in DESIGN.md section 4 claims it)"

def main():
    hooks_commits = []
    try:
        import subprocess
        out = subprocess.run(["git", "-C", "/repo", "log", "--format=%h %s"], capture_output=True, text=True).stdout
        hooks_commits = [l.split()[0] for l in out.splitlines() if l.split(" ", 1)[1].startswith("verif hook")]
    except Exception:
        pass
    m = {
        "version": 1,
        "setup_cmd": "cd /verif/harness && CARGO_NET_OFFLINE=true cargo build --release --offline",
        "hooks": {
            "guard": "--cfg olson_sean_k_wax_verif",
            "enable": "RUSTFLAGS `--cfg olson_sean_k_wax_verif` set in /verif/harness/.cargo/config.toml ([build] rustflags); wax is a path dependency on /repo, so every ./check rebuilds it from the working tree with the hooks on",
            "baseline_off_cmd": "cd /repo && cargo nextest run --workspace --no-fail-fast --offline || cargo test --workspace --no-fail-fast --offline",
            "source_commits": hooks_commits,
            "add_only": True,
        },
        "engines": [
            {
                "name": "waxverif",
                "path": "harness/",
                "serves_properties": sorted(CHECKS.keys()),
                "kind_free_text": "Rust binary: proptest TestRunner over a byte tape decoded by grammar-based generators (glob ASTs, paths, directory trees, combinator stacks); independent oracles (reference matcher, reference rule checker, read_dir traversal); own structural minimiser; JSON replay files",
            },
        ],
        "checks": [],
        "not_applicable": [],
        "notes": "All checks: ./check <ID> --tier quick|thorough (exit 0 held / 1 VIOLATION / 2 infrastructure, never a violation). Known findings: known_findings.json (signatures coded in harness/src). Seeds: VERIF_SEED.",
    }
    for i in IDS:
        if i in CHECKS:
            c = CHECKS[i]
            m["checks"].append({
                "property_id": i,
                "quick_cmd": "./check %s --tier quick" % i,
                "thorough_cmd": "./check %s --tier thorough" % i,
                "evidence_file": "/verif/evidence/%s.json" % i,
                "replay_cmd_template": "./check %s --replay {path}" % i,
                "engine": "waxverif",
                "level_claimed": {"category": c["cat"], "text": c["text"], "design_ref": "DESIGN.md section 4, %s" % i},
                "level_note": c["note"],
                "technique": c["technique"],
            })
        else:
            m["not_applicable"].append({"property_id": i, "reason": PENDING_REASON})
    json.dump(m, open(os.path.join(ROOT, "MANIFEST.json"), "w"), indent=1, ensure_ascii=False)
    print("MANIFEST.json: %d checks, %d pending" % (len(m["checks"]), len(m["not_applicable"])))

main()
