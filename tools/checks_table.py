add("C01",
    "property-based testing (proptest, grammar-based glob generator) against an independent three-valued reference matcher",
    "Generated-input search: thousands of buildable globs x pools of witness/mutant/random/regex-directed paths are judged by a reference matcher that shares no code with wax; finds violations, never proves absence.",
    "Trusted: the reference matcher (strict/lenient modes, self-tested on the README examples), proptest, the renderer. Unix semantics only; expressions <= ~20 tokens, nesting <= 3, paths <= 120 bytes.")
add("C04",
    "property-based testing (proptest): reported captures re-validated by a constrained reference match",
    "Generated-input search over buildable globs x matching paths x capture indices; every reported capture set must be a valid decomposition of the path under the independent reference matcher (capturing tokens forced onto the reported spans), plus structural clauses and owned==borrowed.",
    "Trusted: reference matcher in lenient mode with forced spans; pointer arithmetic on the borrowed capture slices. Absorbed separators may or may not be part of a tree wildcard's capture.")
add("C06",
    "property-based testing (proptest, rule-agnostic grammar) + bounded-exhaustive enumeration of nested shapes against a reference rule checker",
    "Generated and enumerated expressions (all shapes up to a size bound over literal/separator/wildcard/tree/alternation/repetition) are judged by a compositional reference implementation of the documented rules; context-freeness is additionally checked metamorphically (unrelated siblings must not change the verdict) and every built glob must be Always/Never rooted.",
    "Trusted: the reference rule checker (three-valued: shapes the statement leaves open are UNSPECIFIED). The enumeration is exhaustive only for its small alphabet and size bound (quick: 4 tokens, thorough: 6).")
add("C07",
    "metamorphic property-based testing (proptest): substitution / unrolling / wrapping / any() families must agree on every path",
    "Pure metamorphic relations between wax outputs over generated expression families and path pools; no reference matcher involved, so it also covers shapes where the documentation is silent.",
    "Trusted: the AST rewriting (members that cannot be written down are not members); inside a repetition that may iterate more than once substitution/unrolling are only checked in the sound direction.")
add("C09",
    "property-based testing (proptest): implication Always => every canonical descendant of a matched canonical path matches",
    "Generated patterns biased to exhaustive-looking tails (and any() of them) x matched canonical paths x generated descendants; checks the implication between two wax outputs.",
    "Trusted: wax's is_match as the yardstick (C01 ties it to the documentation). The empty path is canonical and every relative path lies beneath it.")
add("C10",
    "property-based testing (proptest): component count of every matched canonical path within the reported depth variance",
    "Generated patterns rich in separators, tree wildcards and nested repetitions x matched canonical paths (relative for never-rooted, rooted for always-rooted patterns).",
    "Trusted: wax's is_match; depth = number of non-empty components; `` and `/` may count an empty open component; expressions with tree wildcards that are not delimited in the expression are outside the domain.")
add("C11",
    "property-based testing (proptest): invariant text is matched and is the only match; cased (?i) literals must be variant",
    "Generated patterns biased to invariance (incl. exotic casing, single-character classes, converged repetitions) x mutants of the invariant text, witnesses and regex-directed samples.",
    "Trusted: wax's is_match; Unix case sensitivity; `has casing` = some Unicode case mapping changes the character.")
add("C12",
    "property-based testing (proptest): Always-rooted => matches start with `/`; globs never Sometimes; reference dot-component scan => has_semantic_literals",
    "Generated patterns (rooted shapes, dot components nested up to two branches deep, near misses) x path pools; clause (c) uses an independent AST scan.",
    "Trusted: the dot-component scan (only whole components spelled as literals count; converse not checked); wax's is_match.")
add("C08",
    "property-based testing (proptest): algebraic law match(g,p) <=> strip_prefix && match(postfix, rest), idempotence, display/rebuild round-trip",
    "Generated globs with every kind of invariant prefix x canonical path pools (incl. prefix-joined samples of the postfix's own program); six clauses of the partition contract are checked as relations between wax outputs.",
    "Trusted: wax's is_match; the prefix is compared component-wise as text (no path normalisation); globs with a class listing a separator or a spelled trailing separator are outside the domain.")
add("C19",
    "property-based testing (proptest): observational equality across conversion routes",
    "Generated globs x routes (Display+new, Clone, into_owned, FromStr, TryFrom; any of text/compiled/nested/Result/owned) x paths x capture indices: every query, match, capture (text and offsets), span and partition must be identical.",
    "Trusted: Debug/Display renderings as the comparison key; the partition-display route is C08's business.")
add("C05",
    "property-based testing / fuzzing in crash-isolating worker processes (proptest-generated strings through every public operation)",
    "Generated strings (arbitrary UTF-8, meta-dense, mutated ASTs, extreme repetition bounds, nesting ladders up to 20000 levels) are pushed through every public build/query/match/partition/combinator/walk-construction operation inside a worker process; panics are caught and reported with message and location, aborts (stack overflow) are observed as worker deaths; compile errors are only accepted for programs above a calibrated size.",
    "Trusted: the worker protocol (one case at a time, so the killing input is known exactly); a watchdog or address-space kill is inconclusive (exit 2), never a violation.")
add("C17",
    "property-based testing (proptest): every reported span must slice the expression; capture spans compared with the renderer's token spans",
    "Failing inputs with multi-byte characters adjacent to the fault and faults at the end of input, rule-violating ASTs, meta-dense strings; building inputs with flag groups in front of capturing tokens and their partitions. The documented slicing idiom is executed under catch_unwind.",
    "Trusted: the renderer's byte spans. A capture span may or may not include the flag groups directly in front of its sub-expression.")
add("C18",
    "property-based testing (proptest) + exhaustive ASCII / sampled Unicode character sweep: escape round-trip",
    "Strings brought into the stated domain by construction x round-trip (builds, invariant text == s, matches s, rejects mutants, no captures); every ASCII character and sampled scalar values checked against the documented meta-character set.",
    "Trusted: the documented meta set `?*$:<>()[]{},`; the sweep is exhaustive only for ASCII.")
add("C02",
    "property-based testing (proptest) on generated directory trees: walk results vs an independent read_dir traversal filtered with is_match",
    "Generated trees x base spellings x globs in four shapes (plain, invariant prefix, rooted, `.`/`..` prefix) are walked and compared as multisets with a reference traversal that shares no code with walkdir or wax; every match is additionally checked against the walk's component programs (pruning soundness).",
    "Trusted: the reference traversal; is_match as yardstick; paths compared component-wise; the base itself may but need not be yielded when the glob matches the empty path; trees of <= 24 entries on the sandbox's tmpfs.")
add("C03",
    "property-based testing (proptest) on generated trees: not(pattern) vs the same walk filtered per entry; pure-path checks of the exhaustive / non-exhaustive partition (hook)",
    "Generated trees x underlying walks (path walks, glob walks, depth bounds) x negations (text, compiled, any of 1-3, nested, empty; biased to alternations / repetitions after tree wildcards) compared as sorted multisets with per-entry filtering; every ancestor/descendant pair of the tree is checked against the compiled exhaustive program.",
    "Trusted: is_match of the negation pattern as the yardstick; the negation-partition hook (read-only accessor).")
add("C13",
    "model-based property testing (proptest): combinator stacks vs a pruned-tree model, with unreadable-directory tripwires in an unprivileged process",
    "Generated trees x stacks (pruning glob / not / filter_entry tables with File and Tree verdicts anywhere, incl. the walk root) x a terminal pass-through probe: what reaches the end of the stack must be exactly the entries not beneath a discarded tree, each once; directories the model discards are made unreadable so that a missing cancellation surfaces as an error item.",
    "Trusted: the pruned-tree model (verdicts from the negation-partition and component-program hooks), the reference traversal. 'Never read' is decided as 'never produced' (walkdir opens a directory before yielding it).")
add("C14",
    "property-based testing (proptest): per-entry algebraic identities on walks over generated trees",
    "Every yielded entry - and every entry a pass-through filter observes, i.e. residue too - over generated trees x base spellings x globs (plain, prefixed, rooted, `..`) or path walks x depth bounds x both link behaviours is checked against the identities of the statement.",
    "Trusted: std::path component semantics for comparisons; symlink_metadata/metadata for file types.")
add("C15",
    "property-based testing (proptest): depth- and link-bounded walks vs a depth-filtered reference traversal with the same link policy; constructor contracts",
    "Generated trees with links (to files / directories, dangling, re-entrant) x globs with prefixes (incl. rooted) x every depth-behaviour constructor with bounds 0..6 x both link behaviours; Ok and error multisets must equal the reference; termination is judged by an item-count cap.",
    "Trusted: the reference traversal's link policy ((dev, ino) of directories on the traversal path); globs whose invariant prefix is a symbolic link are outside the domain.",
)
add("C16",
    "stateful / model-based property testing (proptest): generated layer sequences and their permutations vs a verdict-lattice model; exactly-once call logs",
    "The history is a generated stack of not / filter_entry layers (repeats allowed) on a generated tree; every order must yield exactly the entries all layers keep (model is order-free), and every user filter must observe exactly the entries not beneath a discarded tree, each once - including entries discarded upstream.",
    "Trusted: the verdict-lattice model; `not` layers are observed only through surrounding filters and the terminal probe.")
add("C20",
    "fault enumeration driven by property-based generation (proptest): exhaustive 0/1/2-fault placements per generated tree in an unprivileged process",
    "For every generated tree up to 10 fault sites (unreadable directories incl. the base, dangling links, links re-entering an ancestor) are enumerated exhaustively for 0, 1 and 2 simultaneous faults (plus one larger subset) and walked bare, under pass-through filters and under a discarding stack: one error per reached fault naming its path, the rest of the walk equal to a fault-free walk of the readable part, pass-through in place and in order, io::Error conversion keeps the kind.",
    "Trusted: the fault-aware reference traversal; runs as uid nobody so that chmod 000 is a real fault; exhaustive only for <= 2 simultaneous faults on trees of <= 14 entries.",
    cat="fault_enumeration")
