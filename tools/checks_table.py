add("C01",
    "property-based testing (proptest, grammar-based glob generator) against an independent three-valued reference matcher",
    "Generated-input search: thousands of buildable globs x pools of witness/mutant/random/regex-directed paths are judged by a reference matcher that shares no code with wax; finds violations, never proves absence.",
    "Trusted: the reference matcher (strict/lenient modes, self-tested on the README examples), proptest, the renderer. Unix semantics only; expressions <= ~20 tokens, nesting <= 3, paths <= 120 bytes.")
