#!/bin/sh
# usage: tools/quickall.sh <seed> [ids...] — runs quick checks with the already built binary and a
# scratch VERIF_ROOT (evidence untouched); one line per check.
seed=$1; shift
ids="$@"; [ -z "$ids" ] && ids="C01 C02 C03 C04 C05 C06 C07 C08 C09 C10 C11 C12 C13 C14 C15 C16 C17 C18 C19 C20"
vroot=/tmp/waxq-$seed-$$; rm -rf $vroot; mkdir -p $vroot; cp /verif/known_findings.json $vroot/; cp -r /verif/replays $vroot/; chmod -R a+rX $vroot
for id in $ids; do
  s=$(date +%s); out=$(cd /verif && VERIF_ROOT=$vroot VERIF_SEED=$seed RUST_BACKTRACE= ${BIN:-/verif/harness/target/release/waxverif} $id --tier quick 2>&1); c=$?; e=$(date +%s)
  echo "seed=$seed $id exit=$c $((e-s))s $(echo "$out" | grep -E '^(VIOLATION|violation detail|generator health|INFRA)' | head -3 | cut -c1-700 | tr '\n' '|')"
done
rm -rf $vroot
