#!/bin/sh
# usage: tools/intake_seed.sh <ID> <agent-worktree> <dest-name> [checks...]
id=$1; wt=$2; dest=/verif/seeded/$3; shift 3
mkdir -p $dest; cp $wt/SEED/patch.diff $wt/SEED/seeded_demo.rs $wt/SEED/NOTES.md $dest/ || exit 2
/verif/tools/verify_seed.sh $id $dest "$@" > /tmp/verify-$(basename $dest).log 2>&1
cut -c1-420 /tmp/verify-$(basename $dest).log
