#!/bin/sh
# usage: tools/verify_seed.sh <ID> <dir-with-patch.diff-and-seeded_demo.rs> [check ids...]
# Confirms a seeded change independently in a scratch worktree: (1) the unedited suite stays
# green with the change, (2) the demonstration fails with it, (3) passes without it; then runs
# the given checks (default: the property's own quick check) against it.
id=$1; dir=$(readlink -f "$2"); shift 2
checks="$@"; [ -z "$checks" ] && checks=$id
wt=/tmp/waxverify-$id
tgt=/tmp/waxverify-target-$id
git -C /repo worktree remove --force $wt >/dev/null 2>&1; rm -rf $wt
git -C /repo worktree add -q --detach $wt HEAD || exit 2
cp "$dir/seeded_demo.rs" $wt/tests/seeded_demo.rs 2>/dev/null || { mkdir -p $wt/tests; cp "$dir/seeded_demo.rs" $wt/tests/; }
cd $wt
export CARGO_TARGET_DIR=$tgt
without=$(cargo test --offline --test seeded_demo 2>&1 | grep -E "^test result" | tail -1)
git apply "$dir/patch.diff" || { echo "PATCH DOES NOT APPLY"; exit 2; }
with=$(cargo test --offline --test seeded_demo 2>&1 | grep -E "^test result" | tail -1)
suite=$(cargo nextest run --workspace --no-fail-fast --offline -E 'not binary(seeded_demo)' 2>&1 | grep -E "Summary" | tail -1)
echo "[$id] demo WITHOUT change: $without"
echo "[$id] demo WITH change:    $with"
echo "[$id] suite WITH change:   $suite"
cd /verif
git -C /repo worktree remove --force $wt >/dev/null 2>&1; rm -rf $tgt
/verif/tools/seedrun.sh "$dir/patch.diff" v$id quick $checks
rm -rf /tmp/waxseed-target-v$id
