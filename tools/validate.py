#!/usr/bin/env python3
import json, glob, sys
import jsonschema
ok = True
def v(f, s):
    global ok
    try:
        jsonschema.validate(json.load(open(f)), json.load(open(s)))
    except Exception as e:
        ok = False
        print("INVALID", f, str(e)[:300])
v('/verif/MANIFEST.json', '/root/.vp/MANIFEST.schema.json')
for f in sorted(glob.glob('/verif/evidence/*.json')):
    v(f, '/root/.vp/EVIDENCE.schema.json')
print("all valid" if ok else "PROBLEMS")
sys.exit(0 if ok else 1)
