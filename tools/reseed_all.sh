#!/bin/sh
# usage: tools/reseed_all.sh <slots>  — re-runs every seeded change (seeded/C??*/patch.diff) against
# the quick check of its own property, <slots> at a time; prints one line per seed:
#   <seed-dir> <ID> exit=<code>   (exit=1 = caught). Results also in /tmp/reseed-results.txt
slots=${1:-2}
ls -d /verif/seeded/C[0-9][0-9]* | while read d; do echo "$d"; done > /tmp/reseed-list.txt
: > /tmp/reseed-results.txt
run_slot() {
  k=$1
  awk -v k=$k -v n=$slots 'NR % n == k' /tmp/reseed-list.txt | while read d; do
    name=$(basename $d); id=$(echo $name | cut -c1-3)
    out=$(/verif/tools/seedrun.sh $d/patch.diff rs$k quick $id 2>&1 | head -1 | cut -c1-160)
    echo "$name $out" >> /tmp/reseed-results.txt
  done
  rm -rf /tmp/waxseed-target-rs$k
}
k=0
while [ $k -lt $slots ]; do run_slot $k & k=$((k+1)); done
wait
sort /tmp/reseed-results.txt
