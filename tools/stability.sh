#!/bin/sh
# usage: tools/stability.sh <tier> <seed> [<seed>...] — runs every check on the unchanged tree with
# the given seeds, with a scratch VERIF_ROOT (so /verif/evidence is not touched); prints only
# checks that are NOT silent (exit != 0 or a VIOLATION line).
tier=$1; shift
(cd /verif/harness && cargo build --release --offline >/dev/null 2>&1) || { echo "build failed"; exit 2; }
for seed in "$@"; do
  vroot=/tmp/waxstab-$seed-$$; rm -rf $vroot; mkdir -p $vroot; cp /verif/known_findings.json $vroot/; cp -r /verif/replays $vroot/; chmod -R a+rX $vroot
  for i in 01 02 03 04 05 06 07 08 09 10 11 12 13 14 15 16 17 18 19 20; do
    out=$(cd /verif && VERIF_ROOT=$vroot VERIF_SEED=$seed RUST_BACKTRACE= /verif/harness/target/release/waxverif C$i --tier $tier 2>&1); code=$?
    if [ $code -ne 0 ] || echo "$out" | grep -q "^VIOLATION"; then echo "seed=$seed C$i exit=$code"; echo "$out" | grep -E "violation detail|VIOLATION|generator health|panic" | head -4 | cut -c1-500; fi
  done
  echo "seed=$seed done"
  rm -rf $vroot
done
