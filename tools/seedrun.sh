#!/bin/sh
# usage: tools/seedrun.sh <patch.diff> <slot> <tier> <ID> [<ID>...]
# Runs the given checks against a scratch copy of /repo (git worktree of HEAD + the patch),
# using cargo's `paths` override and a per-slot target directory outside /repo and /verif.
# Evidence / violations of these runs go to a scratch VERIF_ROOT, never to /verif.
# Prints one line per check:  <ID> exit=<code> <first VIOLATION/OK line>
patch=$(readlink -f "$1"); slot=$2; tier=$3; shift 3
copy=/tmp/waxseed-copy-$slot
tdir=/tmp/waxseed-target-$slot
vroot=/tmp/waxseed-root-$slot
git -C /repo worktree remove --force "$copy" >/dev/null 2>&1
rm -rf "$copy" "$vroot"
git -C /repo worktree add -q --detach "$copy" HEAD || exit 2
if ! git -C "$copy" apply "$patch"; then echo "PATCH DOES NOT APPLY"; git -C /repo worktree remove --force "$copy"; exit 2; fi
mkdir -p "$vroot"
cp /verif/known_findings.json "$vroot/"; cp -r /verif/replays "$vroot/" 2>/dev/null
log=$(cd /verif/harness && CARGO_NET_OFFLINE=true cargo build --release --offline --config "paths=[\"$copy\"]" --target-dir "$tdir" 2>&1)
if [ $? -ne 0 ]; then echo "$log" | tail -30; echo "BUILD FAILED"; git -C /repo worktree remove --force "$copy"; exit 2; fi
chmod -R a+rX "$tdir/release/waxverif" "$vroot" 2>/dev/null; chmod a+rx /tmp "$tdir" "$tdir/release" 2>/dev/null
for id in "$@"; do
    out=$(cd /verif && VERIF_ROOT="$vroot" RUST_BACKTRACE= timeout 3000 "$tdir/release/waxverif" "$id" --tier "$tier" 2>&1)
    code=$?
    line=$(echo "$out" | grep -E "^(VIOLATION|OK |violation detail)" | head -2 | tr '\n' ' ' | cut -c1-600)
    echo "$id exit=$code $line"
done
git -C /repo worktree remove --force "$copy" >/dev/null 2>&1
rm -rf "$vroot"
