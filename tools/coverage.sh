#!/bin/sh
# usage: tools/coverage.sh [tier]   (default quick)
# Measures which lines of /repo/src the checks reach: builds the harness with
# `-C instrument-coverage` on the nightly toolchain into a scratch target directory, runs every
# check with a scratch VERIF_ROOT, merges the profiles and prints llvm-cov's per-file report plus
# the uncovered line ranges.  Nothing is written to /verif; scratch directories are removed.
# (Worker processes of C05 are killed, not exited, and write no profile: C05's in-worker
# operations are under-reported.)
tier=${1:-quick}
B=$(rustc +nightly --print sysroot)/lib/rustlib/x86_64-unknown-linux-gnu/bin
T=/tmp/waxcov-target; P=/tmp/waxcov-prof; R=/tmp/waxcov-root
rm -rf $P $R; mkdir -p $P $R; chmod 777 $P
cp /verif/known_findings.json $R/; cp -r /verif/replays $R/
(cd /verif/harness && RUSTFLAGS="--cfg olson_sean_k_wax_verif -C instrument-coverage" CARGO_NET_OFFLINE=true cargo +nightly build --release --offline --target-dir $T >/dev/null 2>&1) || { echo "build failed"; exit 2; }
chmod -R a+rX $T $R
for i in 01 02 03 04 05 06 07 08 09 10 11 12 13 14 15 16 17 18 19 20; do
  (cd /verif && LLVM_PROFILE_FILE="$P/C$i-%p-%8m.profraw" VERIF_ROOT=$R $T/release/waxverif C$i --tier $tier 2>&1 | grep -E "^(OK|VIOLATION)" | cut -c1-100)
done
$B/llvm-profdata merge -sparse $P/*.profraw -o $P/all.profdata
$B/llvm-cov report $T/release/waxverif -instr-profile=$P/all.profdata --sources /repo/src 2>/dev/null | awk '{printf "%-36s lines %6s missed %5s  %s\n", $1, $8, $9, $10}'
$B/llvm-cov export $T/release/waxverif -instr-profile=$P/all.profdata --sources /repo/src -format=lcov 2>/dev/null > $P/all.lcov
python3 - "$P/all.lcov" <<'PY'
import sys,collections
cur=None; miss=collections.defaultdict(list)
for l in open(sys.argv[1]):
    l=l.strip()
    if l.startswith('SF:'): cur=l[3:]
    elif l.startswith('DA:'):
        n,c=l[3:].split(',')[:2]
        if int(c)==0: miss[cur].append(int(n))
for f in sorted(miss):
    src=open(f).read().split('\n'); ns=sorted(miss[f]); out=[]; s=p=None
    for n in ns:
        if s is None: s=p=n
        elif n==p+1: p=n
        else: out.append((s,p)); s=p=n
    if s is not None: out.append((s,p))
    print('==',f)
    for a,b in out: print(f'  {a}-{b}: {src[a-1].strip()[:100]}')
PY
rm -rf $T $P $R
